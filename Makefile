# offline build of the framework: one C reference program (gcc, libc, libm only)
CC ?= gcc
build: build/cref
build/cref: cref/cref.c
	mkdir -p build
	$(CC) -O1 -g -fsanitize=address,undefined -fno-sanitize-recover=all -o build/cref cref/cref.c -lm
clean:
	rm -rf build
.PHONY: build clean
