/* cref - independent C reference reader / writer for the pyprobables export formats (property C06).
 *
 * Written from the DOCUMENTED layouts, not from the Python sources:
 *   Bloom filter      : bit array, bit i = bit (i mod 8) of byte (i div 8); footer {uint64 est_elements,
 *                       uint64 elements_added, float false_positive_rate} (native little endian)
 *   counting Bloom    : uint32 cells, same footer
 *   count-min sketch  : int32 bins[depth][width]; footer {uint32 width, uint32 depth, int64 elements_added}
 *   expanding/rotating: per sub filter {uint64 elements_added, bit array}; footer {uint64 number of filters,
 *                       uint64 est_elements, uint64 elements_added, float false_positive_rate}
 *   cuckoo            : capacity x bucket_size uint32 fingerprints (0 = empty); footer {uint32 bucket_size, uint32 max_swaps}
 *   counting cuckoo   : capacity x bucket_size {uint32 fingerprint, uint32 count}; same footer
 * geometry   : number_bits = ceil(-n ln(p) / 0.4804530139182), p read as a C float; number_hashes = round(ln2 m / n)
 * hashing    : FNV-1a 64, offset basis advanced by 31 per hash index; position = hash mod size
 *
 * Server mode: one request per line on stdin, one answer line on stdout. Payloads are hex.
 * Built with -fsanitize=address,undefined so that a layout mistake fails loudly.
 */
#include <inttypes.h>
#include <math.h>
#include <stdint.h>
#include <stdio.h>
#include <stdlib.h>
#include <string.h>

typedef struct { unsigned char *p; size_t n; } buf_t;

static int hexval(int c) {
    if (c >= '0' && c <= '9') return c - '0';
    if (c >= 'a' && c <= 'f') return c - 'a' + 10;
    if (c >= 'A' && c <= 'F') return c - 'A' + 10;
    return -1;
}

static buf_t unhex(const char *s) {
    buf_t b;
    size_t len = strlen(s);
    if (len == 1 && s[0] == '-') { b.p = malloc(1); b.n = 0; return b; } /* "-" = empty */
    b.n = len / 2;
    b.p = malloc(b.n ? b.n : 1);
    for (size_t i = 0; i < b.n; i++) b.p[i] = (unsigned char)(hexval(s[2 * i]) * 16 + hexval(s[2 * i + 1]));
    return b;
}

static void puthex(const unsigned char *p, size_t n) {
    for (size_t i = 0; i < n; i++) printf("%02x", p[i]);
}

static uint64_t fnv64(const unsigned char *d, size_t n, uint64_t index) {
    uint64_t h = 14695981039346656037ULL + 31ULL * index;
    for (size_t i = 0; i < n; i++) { h ^= d[i]; h *= 1099511628211ULL; }
    return h;
}

static uint32_t fnv32(const unsigned char *d, size_t n, uint32_t index) {
    uint32_t h = 0x811C9DC5u + 31u * index;
    for (size_t i = 0; i < n; i++) { h ^= d[i]; h *= 0x01000193u; }
    return h;
}

/* geometry from (n, p); *half is set when ln2*m/n is an exact .5 (C rounds away from zero, Python to even) */
static void geometry(uint64_t n, float p, uint64_t *m, uint64_t *k, int *half) {
    double mm = ceil((-(double)n * log((double)p)) / 0.4804530139182);
    double kk = 0.6931471805599453 * mm / (double)n;
    *m = (uint64_t)mm;
    *k = (uint64_t)round(kk);
    *half = (kk - floor(kk)) == 0.5;
}

static int64_t floordiv(int64_t a, int64_t b) {
    int64_t q = a / b;
    if ((a % b != 0) && ((a < 0) != (b < 0))) q--;
    return q;
}

static int cmp64(const void *a, const void *b) {
    int64_t x = *(const int64_t *)a, y = *(const int64_t *)b;
    return (x > y) - (x < y);
}

#define MAXTOK 4096
static char *tok[MAXTOK];
static int ntok;

static void split(char *line) {
    ntok = 0;
    char *save = NULL;
    for (char *t = strtok_r(line, " \t\r\n", &save); t && ntok < MAXTOK; t = strtok_r(NULL, " \t\r\n", &save)) tok[ntok++] = t;
}

/* ---- readers ---- */

static void bloom_check(void) { /* bloom-check EXPORT KEY... -> "m k half : 0/1 ..." */
    buf_t e = unhex(tok[1]);
    uint64_t est, added; float fpr;
    memcpy(&est, e.p + e.n - 20, 8); memcpy(&added, e.p + e.n - 12, 8); memcpy(&fpr, e.p + e.n - 4, 4);
    uint64_t m, k; int half;
    geometry(est, fpr, &m, &k, &half);
    printf("%" PRIu64 " %" PRIu64 " %d %" PRIu64 " %zu :", m, k, half, added, e.n - 20);
    if ((m + 7) / 8 != e.n - 20) { printf(" LENGTH-MISMATCH\n"); free(e.p); return; }
    for (int i = 2; i < ntok; i++) {
        buf_t key = unhex(tok[i]);
        int present = 1;
        for (uint64_t j = 0; j < k; j++) {
            uint64_t pos = fnv64(key.p, key.n, j) % m;
            if (!(e.p[pos / 8] & (1u << (pos % 8)))) { present = 0; break; }
        }
        printf(" %d", present);
        free(key.p);
    }
    printf("\n");
    free(e.p);
}

static void cbloom_check(void) { /* cbloom-check EXPORT KEY... -> counts */
    buf_t e = unhex(tok[1]);
    uint64_t est, added; float fpr;
    memcpy(&est, e.p + e.n - 20, 8); memcpy(&added, e.p + e.n - 12, 8); memcpy(&fpr, e.p + e.n - 4, 4);
    uint64_t m, k; int half;
    geometry(est, fpr, &m, &k, &half);
    printf("%" PRIu64 " %" PRIu64 " %d %" PRIu64 " %zu :", m, k, half, added, e.n - 20);
    if (m * 4 != e.n - 20) { printf(" LENGTH-MISMATCH\n"); free(e.p); return; }
    for (int i = 2; i < ntok; i++) {
        buf_t key = unhex(tok[i]);
        uint32_t lo = UINT32_MAX;
        for (uint64_t j = 0; j < k; j++) {
            uint64_t pos = fnv64(key.p, key.n, j) % m;
            uint32_t c; memcpy(&c, e.p + 4 * pos, 4);
            if (c < lo) lo = c;
        }
        printf(" %" PRIu32, lo);
        free(key.p);
    }
    printf("\n");
    free(e.p);
}

static void cms_check(void) { /* cms-check EXPORT KEY... -> "width depth added : min,mean,meanmin ..." */
    buf_t e = unhex(tok[1]);
    uint32_t width, depth; int64_t added;
    memcpy(&width, e.p + e.n - 16, 4); memcpy(&depth, e.p + e.n - 12, 4); memcpy(&added, e.p + e.n - 8, 8);
    printf("%" PRIu32 " %" PRIu32 " %" PRId64 " :", width, depth, added);
    if ((size_t)width * depth * 4 != e.n - 16) { printf(" LENGTH-MISMATCH\n"); free(e.p); return; }
    int64_t *v = malloc(sizeof(int64_t) * (depth ? depth : 1));
    int64_t *mm = malloc(sizeof(int64_t) * (depth ? depth : 1));
    for (int i = 2; i < ntok; i++) {
        buf_t key = unhex(tok[i]);
        int64_t sum = 0;
        for (uint32_t r = 0; r < depth; r++) {
            uint64_t col = fnv64(key.p, key.n, r) % width;
            int32_t c; memcpy(&c, e.p + 4 * ((size_t)r * width + col), 4);
            v[r] = c; sum += c;
        }
        qsort(v, depth, sizeof(int64_t), cmp64);
        int64_t mn = v[0];
        int64_t mean = floordiv(sum, depth);
        int64_t meanmin;
        if (width < 2) {
            printf(" %" PRId64 ",%" PRId64 ",NA", mn, mean);
        } else {
            if (v[0] == 0 && v[depth - 1] == 0) meanmin = 0;
            else {
                for (uint32_t r = 0; r < depth; r++) mm[r] = v[r] - floordiv(added - v[r], (int64_t)width - 1);
                qsort(mm, depth, sizeof(int64_t), cmp64);
                if (depth % 2 == 0) meanmin = floordiv(mm[depth / 2] + mm[depth / 2 - 1], 2);
                else meanmin = mm[depth / 2];
            }
            printf(" %" PRId64 ",%" PRId64 ",%" PRId64, mn, mean, meanmin);
        }
        free(key.p);
    }
    printf("\n");
    free(v); free(mm); free(e.p);
}

static void expanding_check(void) { /* expanding-check EXPORT KEY... -> presence */
    buf_t e = unhex(tok[1]);
    uint64_t size, est, added; float fpr;
    memcpy(&size, e.p + e.n - 28, 8); memcpy(&est, e.p + e.n - 20, 8); memcpy(&added, e.p + e.n - 12, 8); memcpy(&fpr, e.p + e.n - 4, 4);
    uint64_t m, k; int half;
    geometry(est, fpr, &m, &k, &half);
    size_t blen = (m + 7) / 8;
    printf("%" PRIu64 " %" PRIu64 " %d %" PRIu64 " %" PRIu64 " :", m, k, half, size, added);
    if (size * (8 + blen) != e.n - 28) { printf(" LENGTH-MISMATCH\n"); free(e.p); return; }
    for (int i = 2; i < ntok; i++) {
        buf_t key = unhex(tok[i]);
        int present = 0;
        for (uint64_t f = 0; f < size && !present; f++) {
            const unsigned char *cells = e.p + f * (8 + blen) + 8;
            int all = 1;
            for (uint64_t j = 0; j < k; j++) {
                uint64_t pos = fnv64(key.p, key.n, j) % m;
                if (!(cells[pos / 8] & (1u << (pos % 8)))) { all = 0; break; }
            }
            present = all;
        }
        printf(" %d", present);
        free(key.p);
    }
    printf("\n");
    free(e.p);
}

static void cuckoo_check(void) { /* cuckoo-check COUNTING FPBITS EXPORT KEY... -> presence / count */
    int counting = atoi(tok[1]);
    int fpbits = atoi(tok[2]);
    buf_t e = unhex(tok[3]);
    uint32_t bucket_size, max_swaps;
    memcpy(&bucket_size, e.p + e.n - 8, 4); memcpy(&max_swaps, e.p + e.n - 4, 4);
    size_t ent = counting ? 8 : 4;
    uint64_t capacity = (e.n - 8) / ent / bucket_size;
    printf("%" PRIu64 " %" PRIu32 " %" PRIu32 " :", capacity, bucket_size, max_swaps);
    for (int i = 4; i < ntok; i++) {
        buf_t key = unhex(tok[i]);
        uint64_t h = fnv64(key.p, key.n, 0);
        uint64_t fp = fpbits >= 64 ? h : (h & ((1ULL << fpbits) - 1));
        if (fp == 0) fp = 1;
        char dec[32];
        int dl = snprintf(dec, sizeof dec, "%" PRIu64, fp);
        uint64_t idx[2] = { fp % capacity, fnv64((unsigned char *)dec, (size_t)dl, 0) % capacity };
        uint32_t found = 0;
        for (int b = 0; b < 2 && !found; b++)
            for (uint32_t s = 0; s < bucket_size && !found; s++) {
                uint32_t f, c = 1;
                memcpy(&f, e.p + (idx[b] * bucket_size + s) * ent, 4);
                if (counting) memcpy(&c, e.p + (idx[b] * bucket_size + s) * ent + 4, 4);
                if (f == (uint32_t)fp && f != 0) found = c;
            }
        printf(" %" PRIu32, found);
        free(key.p);
    }
    printf("\n");
    free(e.p);
}

/* ---- writers ---- */

static void put_bloom_footer(unsigned char *out, uint64_t est, uint64_t added, float fpr) {
    memcpy(out, &est, 8); memcpy(out + 8, &added, 8); memcpy(out + 16, &fpr, 4);
}

static void bloom_write(void) { /* bloom-write EST RATE ADDED KEY... */
    uint64_t est = strtoull(tok[1], NULL, 10);
    float fpr = (float)strtod(tok[2], NULL);
    uint64_t added = strtoull(tok[3], NULL, 10);
    uint64_t m, k; int half;
    geometry(est, fpr, &m, &k, &half);
    size_t blen = (m + 7) / 8;
    unsigned char *out = calloc(blen + 20, 1);
    for (int i = 4; i < ntok; i++) {
        buf_t key = unhex(tok[i]);
        for (uint64_t j = 0; j < k; j++) {
            uint64_t pos = fnv64(key.p, key.n, j) % m;
            out[pos / 8] |= (unsigned char)(1u << (pos % 8));
        }
        free(key.p);
    }
    put_bloom_footer(out + blen, est, added, fpr);
    printf("%d ", half);
    puthex(out, blen + 20);
    printf("\n");
    free(out);
}

static void cbloom_write(void) { /* cbloom-write EST RATE ADDED {KEY COUNT}... (net counts, unsaturated) */
    uint64_t est = strtoull(tok[1], NULL, 10);
    float fpr = (float)strtod(tok[2], NULL);
    uint64_t added = strtoull(tok[3], NULL, 10);
    uint64_t m, k; int half;
    geometry(est, fpr, &m, &k, &half);
    uint32_t *cells = calloc(m ? m : 1, 4);
    for (int i = 4; i + 1 < ntok; i += 2) {
        buf_t key = unhex(tok[i]);
        uint32_t cnt = (uint32_t)strtoul(tok[i + 1], NULL, 10);
        for (uint64_t j = 0; j < k; j++) cells[fnv64(key.p, key.n, j) % m] += cnt; /* once per occurrence */
        free(key.p);
    }
    unsigned char foot[20];
    put_bloom_footer(foot, est, added, fpr);
    printf("%d ", half);
    puthex((unsigned char *)cells, m * 4);
    puthex(foot, 20);
    printf("\n");
    free(cells);
}

static void cbloom_ops(void) { /* cbloom-ops EST RATE {+|-}KEY:N ... : replay a history with the documented saturation rules */
    uint64_t est = strtoull(tok[1], NULL, 10);
    float fpr = (float)strtod(tok[2], NULL);
    uint64_t m, k; int half;
    geometry(est, fpr, &m, &k, &half);
    uint32_t *cells = calloc(m ? m : 1, 4);
    uint64_t total = 0;
    for (int i = 3; i < ntok; i++) {
        char sign = tok[i][0];
        char *colon = strchr(tok[i], ':');
        *colon = 0;
        buf_t key = unhex(tok[i] + 1);
        /* amounts may exceed 64 bits in the driver's alphabet: anything longer than 19 digits saturates */
        uint64_t n = strlen(colon + 1) > 19 ? UINT64_MAX : strtoull(colon + 1, NULL, 10);
        if (sign == '+') {
            for (uint64_t j = 0; j < k; j++) { /* once per occurrence of a position, pinned at 2^32-1 */
                uint64_t pos = fnv64(key.p, key.n, j) % m;
                uint64_t v = (uint64_t)cells[pos] + (n > UINT32_MAX ? (uint64_t)UINT32_MAX : n);
                cells[pos] = v > UINT32_MAX ? UINT32_MAX : (uint32_t)v;
            }
            total = (total + n < total) ? UINT64_MAX : total + n;
        } else {
            uint32_t lo = UINT32_MAX;
            for (uint64_t j = 0; j < k; j++) { uint32_t c = cells[fnv64(key.p, key.n, j) % m]; if (c < lo) lo = c; }
            if (lo != UINT32_MAX && lo != 0) { /* a key at the limit, or absent, is left alone */
                uint32_t take = n < lo ? (uint32_t)n : lo;
                for (uint64_t j = 0; j < k; j++) {
                    uint64_t pos = fnv64(key.p, key.n, j) % m;
                    if (cells[pos] < UINT32_MAX) cells[pos] -= take; /* a cell at the limit is never decremented */
                }
                total -= take;
            }
        }
        free(key.p);
    }
    unsigned char foot[20];
    put_bloom_footer(foot, est, total, fpr);
    printf("%d ", half);
    puthex((unsigned char *)cells, m * 4);
    puthex(foot, 20);
    printf("\n");
    free(cells);
}

static void cms_write(void) { /* cms-write WIDTH DEPTH ADDED {KEY COUNT}... */
    uint32_t width = (uint32_t)strtoul(tok[1], NULL, 10), depth = (uint32_t)strtoul(tok[2], NULL, 10);
    int64_t added = strtoll(tok[3], NULL, 10);
    int32_t *bins = calloc((size_t)width * depth, 4);
    for (int i = 4; i + 1 < ntok; i += 2) {
        buf_t key = unhex(tok[i]);
        int32_t cnt = (int32_t)strtol(tok[i + 1], NULL, 10);
        for (uint32_t r = 0; r < depth; r++) bins[(size_t)r * width + fnv64(key.p, key.n, r) % width] += cnt;
        free(key.p);
    }
    unsigned char foot[16];
    memcpy(foot, &width, 4); memcpy(foot + 4, &depth, 4); memcpy(foot + 8, &added, 8);
    puthex((unsigned char *)bins, (size_t)width * depth * 4);
    puthex(foot, 16);
    printf("\n");
    free(bins);
}

static void expanding_write(void) { /* expanding-write EST RATE ADDED NFILTERS {COUNT NKEYS KEY...}... */
    uint64_t est = strtoull(tok[1], NULL, 10);
    float fpr = (float)strtod(tok[2], NULL);
    uint64_t added = strtoull(tok[3], NULL, 10);
    uint64_t nf = strtoull(tok[4], NULL, 10);
    uint64_t m, k; int half;
    geometry(est, fpr, &m, &k, &half);
    size_t blen = (m + 7) / 8;
    printf("%d ", half);
    int t = 5;
    for (uint64_t f = 0; f < nf; f++) {
        uint64_t cnt = strtoull(tok[t++], NULL, 10);
        int nk = atoi(tok[t++]);
        unsigned char *cells = calloc(blen ? blen : 1, 1);
        for (int i = 0; i < nk; i++) {
            buf_t key = unhex(tok[t++]);
            for (uint64_t j = 0; j < k; j++) {
                uint64_t pos = fnv64(key.p, key.n, j) % m;
                cells[pos / 8] |= (unsigned char)(1u << (pos % 8));
            }
            free(key.p);
        }
        puthex((unsigned char *)&cnt, 8);
        puthex(cells, blen);
        free(cells);
    }
    unsigned char foot[28];
    memcpy(foot, &nf, 8); memcpy(foot + 8, &est, 8); memcpy(foot + 16, &added, 8); memcpy(foot + 24, &fpr, 4);
    puthex(foot, 28);
    printf("\n");
}

static void cuckoo_write(void) { /* cuckoo-write COUNTING BUCKET_SIZE MAX_SWAPS NBUCKETS {N {FP [COUNT]}...}... */
    int counting = atoi(tok[1]);
    uint32_t bs = (uint32_t)strtoul(tok[2], NULL, 10), sw = (uint32_t)strtoul(tok[3], NULL, 10);
    uint64_t nb = strtoull(tok[4], NULL, 10);
    int t = 5;
    for (uint64_t b = 0; b < nb; b++) {
        uint32_t n = (uint32_t)strtoul(tok[t++], NULL, 10);
        for (uint32_t s = 0; s < bs; s++) {
            uint32_t fp = 0, cnt = 0;
            if (s < n) {
                fp = (uint32_t)strtoul(tok[t++], NULL, 10);
                if (counting) cnt = (uint32_t)strtoul(tok[t++], NULL, 10);
            }
            puthex((unsigned char *)&fp, 4);
            if (counting) puthex((unsigned char *)&cnt, 4);
        }
    }
    puthex((unsigned char *)&bs, 4);
    puthex((unsigned char *)&sw, 4);
    printf("\n");
}

static void fnv_cmd(void) { /* fnv KEY INDEX -> fnv64 fnv32 */
    buf_t key = unhex(tok[1]);
    uint64_t idx = strtoull(tok[2], NULL, 10);
    printf("%" PRIu64 " %" PRIu32 "\n", fnv64(key.p, key.n, idx), fnv32(key.p, key.n, (uint32_t)idx));
    free(key.p);
}

int main(void) {
    char *line = NULL;
    size_t cap = 0;
    while (getline(&line, &cap, stdin) > 0) {
        split(line);
        if (ntok == 0) { printf("\n"); fflush(stdout); continue; }
        if (!strcmp(tok[0], "bloom-check")) bloom_check();
        else if (!strcmp(tok[0], "cbloom-check")) cbloom_check();
        else if (!strcmp(tok[0], "cms-check")) cms_check();
        else if (!strcmp(tok[0], "expanding-check")) expanding_check();
        else if (!strcmp(tok[0], "cuckoo-check")) cuckoo_check();
        else if (!strcmp(tok[0], "bloom-write")) bloom_write();
        else if (!strcmp(tok[0], "cbloom-write")) cbloom_write();
        else if (!strcmp(tok[0], "cms-write")) cms_write();
        else if (!strcmp(tok[0], "cbloom-ops")) cbloom_ops();
        else if (!strcmp(tok[0], "expanding-write")) expanding_write();
        else if (!strcmp(tok[0], "cuckoo-write")) cuckoo_write();
        else if (!strcmp(tok[0], "fnv")) fnv_cmd();
        else printf("ERR unknown command\n");
        fflush(stdout);
    }
    free(line);
    return 0;
}
