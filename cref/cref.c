int main(void){return 0;}
