"""bounded exhaustive model checking of pyprobables (see /verif/DESIGN.md)"""
from mc import choices as _choices

_choices.install()  # before anything imports probables: the explorer owns the random module
