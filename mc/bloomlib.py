"""Oracles shared by the Bloom-family drivers: statistics references (60-digit decimal),
export/load round trip on every channel (C05), public observation vectors (C19)."""
from __future__ import annotations

import io
import os
import shutil
import struct
import tempfile
from decimal import Decimal, getcontext

from mc.engine import call

getcontext().prec = 60


def popcount_cells(cells, counting):
    if counting:
        return sum(1 for c in cells if c > 0)
    return sum(bin(c).count("1") for c in cells)


def ref_estimate(m, k, x):
    """acceptable values of estimate_elements() for m cells, k hashes, x set cells"""
    if x >= m:
        return {-1}
    if x == 0:
        return {0}
    v = -(Decimal(m) / Decimal(k)) * (Decimal(1) - Decimal(x) / Decimal(m)).ln()
    fl = int(v)  # v >= 0: truncation == floor
    acc = {fl}
    frac = v - fl
    if frac < Decimal("1e-9"):
        acc.add(fl - 1)
    if frac > 1 - Decimal("1e-9"):
        acc.add(fl + 1)
    return acc


def ref_fpr(m, k, n):
    """(1 - e^(-k n / m))^k as a float"""
    e = (-(Decimal(k) * Decimal(n)) / Decimal(m)).exp()
    return float((Decimal(1) - e) ** k)


def close(a, b, rel=1e-12):
    return abs(a - b) <= rel * max(abs(a), abs(b), 1e-300) or abs(a - b) < 1e-300


def cells_of(f):
    """the cell array through the public `bloom` property (list of ints)"""
    return [f.bloom[i] for i in range(f.bloom_length)]


def bloom_observation(f, counting=False):
    """public observation vector of a Bloom / counting Bloom filter"""
    return (
        call(bytes, f),
        call(f.export_hex),
        f.elements_added,
        f.estimated_elements,
        f.false_positive_rate,
        f.number_bits,
        f.number_hashes,
        f.bloom_length,
        f.is_on_disk,
        call(f.export_size),
    )


def geometry(f):
    return (f.estimated_elements, f.false_positive_rate, f.number_bits, f.number_hashes, f.bloom_length, f.elements_added)


def bloom_roundtrip(f, cls, hf, probes, bad, tag):
    """C05 for BloomFilter / CountingBloomFilter: every export channel x every load channel."""
    b = call(bytes, f)
    if b[0] != "ok":
        bad("C05", f"{tag}.export_bytes", {"obs": b})
        return
    blob = b[1]
    hx = call(f.export_hex)
    ref_checks = [call(f.check, k) for k in probes]
    ref_geo = geometry(f)
    tmp = tempfile.mkdtemp(prefix="vbl")
    try:
        path = os.path.join(tmp, "x.blm")
        e = call(f.export, path)
        fbytes = None
        if e[0] != "ok":
            bad("C05", f"{tag}.export_path", {"obs": e})
        else:
            with open(path, "rb") as fh:
                fbytes = fh.read()
            if fbytes != blob:
                bad("C05", f"{tag}.channels_same_payload", {"channel": "path", "file": fbytes.hex()[:200], "bytes": blob.hex()[:200]})
        bio = io.BytesIO()
        e2 = call(f.export, bio)
        if e2[0] != "ok" or bio.getvalue() != blob:
            bad("C05", f"{tag}.channels_same_payload", {"channel": "fileobj", "obs": e2[0]})
        if hx[0] != "ok":
            bad("C05", f"{tag}.export_hex", {"obs": hx})
        else:
            # hex = cells in the same byte order + footer VALUES big-endian
            try:
                raw = bytes.fromhex(hx[1])
                cells_h, foot_h = raw[:-20], raw[-20:]
                cells_b, foot_b = blob[:-20], blob[-20:]
                vals_h = struct.unpack(">QQf", foot_h)
                vals_b = struct.unpack("=QQf", foot_b)
                if cells_h != cells_b or vals_h != vals_b:
                    bad("C05", f"{tag}.channels_same_payload", {"channel": "hex", "hex_footer": vals_h, "bytes_footer": vals_b,
                                                                   "cells_equal": cells_h == cells_b})
            except (ValueError, struct.error) as exc:
                bad("C05", f"{tag}.channels_same_payload", {"channel": "hex", "error": str(exc)})
        loaders = [("frombytes", lambda: cls.frombytes(blob, hash_function=hf)),
                   ("frombytes(bytearray)", lambda: cls.frombytes(bytearray(blob), hash_function=hf)),
                   ("frombytes(memoryview)", lambda: cls.frombytes(memoryview(blob), hash_function=hf))]
        if fbytes is not None:
            loaders.append(("filepath", lambda: cls(filepath=path, hash_function=hf)))
        if hx[0] == "ok":
            loaders.append(("hex_string", lambda: cls(hex_string=hx[1], hash_function=hf)))
        for name, ld in loaders:
            r = call(ld)
            if r[0] != "ok":
                bad("C05", f"{tag}.load", {"channel": name, "obs": r})
                continue
            g = r[1]
            if type(g) is not cls:
                bad("C05", f"{tag}.loaded_class", {"channel": name, "type": type(g).__name__})
            if geometry(g) != ref_geo:
                bad("C05", f"{tag}.loaded_geometry", {"channel": name, "orig": ref_geo, "loaded": geometry(g)})
            got = [call(g.check, k) for k in probes]
            if got != ref_checks:
                bad("C05", f"{tag}.loaded_answers", {"channel": name, "orig": repr(ref_checks)[:200], "loaded": repr(got)[:200]})
            rb = call(bytes, g)
            if rb != ("ok", blob):
                bad("C05", f"{tag}.reexport_identical", {"channel": name, "obs": rb[0]})
            rh = call(g.export_hex)
            if rh != hx:
                bad("C05", f"{tag}.reexport_identical", {"channel": name + "/hex"})
    finally:
        shutil.rmtree(tmp, ignore_errors=True)


def stats_oracle(f, counting, n_model, bad, prop="C14", tag="bloom"):
    """estimate_elements / current_false_positive_rate are the standard functions of (X, n)."""
    m, k = f.number_bits, f.number_hashes
    cells = cells_of(f)
    x = popcount_cells(cells, counting)
    est = call(f.estimate_elements)
    acc = ref_estimate(m, k, x)
    if est[0] != "ok" or est[1] not in acc:
        bad(prop, f"{tag}.estimate_elements", {"m": m, "k": k, "set": x, "accepted": sorted(acc), "obs": est})
    if not counting:
        txt = call(str, f)
        if txt[0] == "ok" and "number bits set:" in txt[1]:
            shown = txt[1].split("number bits set:")[1].split()[0]
            if shown != str(x):
                bad(prop, f"{tag}.number_bits_set_printed", {"printed": shown, "popcount_of_exported_cells": x, "m": m})
    n = f.elements_added
    if n >= 0:
        cur = call(f.current_false_positive_rate)
        want = ref_fpr(m, k, n)
        if cur[0] != "ok" or not close(cur[1], want, 1e-11):
            bad(prop, f"{tag}.current_false_positive_rate", {"m": m, "k": k, "n": n, "expected": want, "obs": cur})
    return x
