"""E2 - choice seam: the explorer owns the library's random draws.

`install()` (called before anything imports probables) replaces the functions of
the global `random` module that a library could draw from, so that even a
`from random import randint` inside the library ends up here; `bind()` also
replaces the `random` attribute of the two cuckoo modules.  While a
ChoiceSource is active every draw is answered from its prefix (then 0) and
recorded as (arity, value); with no active source a draw is a harness error
(nondeterminism that escaped the seam).
"""
from __future__ import annotations

import random as _random

from mc.engine import HarnessError

_active = [None]
_orig = {}
RESOLUTION_CAP = 4096


class ChoiceSource:
    def __init__(self, prefix=(), strict=True):
        self.prefix = list(prefix or ())
        self.trace = []  # (arity, value)
        self.strict = strict
        self.diverged = False

    def _next(self, arity):
        i = len(self.trace)
        if arity <= 0:
            raise HarnessError("choice with empty domain")
        if i < len(self.prefix):
            v = self.prefix[i]
            if not 0 <= v < arity:
                if self.strict:
                    raise HarnessError(f"replayed choice {v} out of range (arity {arity}) at draw {i}")
                self.diverged = True
                v = v % arity
        else:
            v = 0
        self.trace.append((arity, v))
        return v

    # the random-module surface the library may use
    def choice(self, seq):
        seq = list(seq)
        return seq[self._next(len(seq))]

    def randint(self, a, b):
        return a + self._next(b - a + 1)

    def randrange(self, start, stop=None, step=1):
        if stop is None:
            start, stop = 0, start
        vals = range(start, stop, step)
        return vals[self._next(len(vals))]

    def random(self):
        # two-valued abstraction of a float draw: low / high
        return (0.25, 0.75)[self._next(2)]

    def getrandbits(self, k):
        return self._next(2 ** min(k, 3))

    def shuffle(self, x):
        # enumerate permutations through successive picks
        n = len(x)
        for i in range(n - 1):
            j = i + self._next(n - i)
            x[i], x[j] = x[j], x[i]

    def sample(self, population, k):
        pool = list(population)
        out = []
        for _ in range(k):
            out.append(pool.pop(self._next(len(pool))))
        return out

    def values(self):
        return [v for _, v in self.trace]


class _Seam:
    """stands in for the `random` module inside the cuckoo modules"""

    def __getattr__(self, name):
        src = _active[0]
        if src is None:
            raise HarnessError(f"random.{name} drawn outside the choice seam")
        return getattr(src, name)


SEAM = _Seam()
_NAMES = ("choice", "randint", "randrange", "random", "getrandbits", "shuffle", "sample")


def install():
    """patch the global random module's functions (idempotent)"""
    if _orig:
        return
    for name in _NAMES:
        _orig[name] = getattr(_random, name)

        def make(name):
            def f(*a, **kw):
                src = _active[0]
                if src is None:
                    return _orig[name](*a, **kw)
                return getattr(src, name)(*a, **kw)

            f.__name__ = name
            return f

        setattr(_random, name, make(name))


def bind():
    import probables.cuckoo.countingcuckoo as cc
    import probables.cuckoo.cuckoo as ck

    for mod in (ck, cc):
        if hasattr(mod, "random"):
            mod.random = SEAM


class active:
    def __init__(self, src):
        self.src = src

    def __enter__(self):
        self.prev = _active[0]
        _active[0] = self.src
        return self.src

    def __exit__(self, *a):
        _active[0] = self.prev


def resolutions(run, cap=RESOLUTION_CAP):
    """Enumerate the complete choice tree of one call.

    run(src) executes the call on a FRESH copy with the given ChoiceSource and returns a result.
    Yields (values, result).  Raises HarnessError if the cap is exceeded (never silently)."""
    stack = [[]]
    n = 0
    while stack:
        prefix = stack.pop()
        src = ChoiceSource(prefix, strict=True)
        result = run(src)
        n += 1
        if n > cap:
            raise HarnessError(f"more than {cap} resolutions of one call")
        vals = src.values()
        if vals[: len(prefix)] != prefix:
            raise HarnessError("divergence while replaying a choice prefix")
        yield vals, result
        alts = []
        for i in range(len(prefix), len(src.trace)):
            arity = src.trace[i][0]
            for alt in range(1, arity):
                alts.append(vals[:i] + [alt])
        stack.extend(reversed(alts))
