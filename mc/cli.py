"""./check <Cxx> [--tier quick|thorough] [--replay FILE] [--jobs N] [--systems a,b]

Runs every system that serves the property over all its configurations
(multiprocessing pool), merges the results, applies the known-findings
protocol, writes evidence/<Cxx>.json and replay artefacts, prints VIOLATION /
KNOWN-FINDING lines and exits 0 / 1 / 2 (harness error).
"""
from __future__ import annotations

import argparse
import hashlib
import json
import multiprocessing
import os
import sys
import time
import traceback

HERE = os.path.dirname(os.path.dirname(os.path.abspath(__file__)))

from mc import engine, registry  # noqa: E402


def _run_job(job):
    idx, sysname, cfg, props, tier = job
    try:
        system = registry.get_system(sysname)
        findings = load_findings()

        def known(v):
            f = match_finding(findings, props[0], sysname, v.to_json())
            return f["id"] if f else None

        if hasattr(system, "run"):
            res = system.run(cfg, props, tier)
        else:
            res = engine.explore(system, cfg, props, known=known)
        return idx, res.to_json(), None
    except engine.HarnessError as exc:
        return idx, None, f"{exc}"
    except BaseException as exc:  # noqa: BLE001
        return idx, None, f"HARNESS-CRASH system={sysname} cfg={cfg}: {type(exc).__name__}: {exc}\n{traceback.format_exc()}"


def load_findings():
    path = os.path.join(HERE, "known_findings.json")
    if not os.path.exists(path):
        return []
    with open(path) as fh:
        return json.load(fh).get("findings", [])


def match_finding(findings, prop, system, viol):
    """A violation matches an OPEN finding iff property, system, oracle agree and
    the finding's guard is one of the guards the oracle computed for it."""
    for f in findings:
        if f.get("status") != "open":
            continue
        sig = f["signature"]
        if prop not in f["property"].split(","):
            continue
        if sig.get("system") not in (None, system):
            continue
        oracles = sig["oracle"] if isinstance(sig["oracle"], list) else [sig["oracle"]]
        if viol["oracle"] not in oracles:
            continue
        if sig.get("guard") is not None and sig["guard"] not in viol.get("guards", []):
            continue
        return f
    return None


def write_replay(prop, system, cfg, history, viol):
    os.makedirs(os.path.join(HERE, "replays"), exist_ok=True)
    body = {"property": prop, "system": system, "cfg": cfg, "history": history, "violation": viol}
    blob = json.dumps(body, sort_keys=True, default=str)
    name = f"{prop}-{hashlib.sha1(blob.encode()).hexdigest()[:12]}.json"
    path = os.path.join(HERE, "replays", name)
    with open(path, "w") as fh:
        json.dump(body, fh, indent=1, default=str)
    return path


def do_replay(prop, path):
    with open(path) as fh:
        body = json.load(fh)
    system = registry.get_system(body["system"])
    if hasattr(system, "replay"):
        viols = system.replay(body["cfg"], body["history"], [prop])
    else:
        viols, obs = engine.replay(system, body["cfg"], body["history"], [prop])
        for step, o in zip(body["history"], obs):
            print(f"  step {step[0]} choices={step[1]} -> {o!r}"[:300])
    findings = load_findings()
    bad = 0
    for v, hist in viols:
        vj = v.to_json()
        f = match_finding(findings, prop, body["system"], vj)
        if f is not None:
            print(f"KNOWN-FINDING: property={prop} {f['what']}")
            continue
        bad += 1
        print(f"  oracle={vj['oracle']} detail={json.dumps(vj['detail'], default=str)[:600]}")
    if bad:
        print(f"VIOLATION property={prop} replay={path}")
        return 1
    print(f"replay of {path}: property {prop} holds on this history")
    return 0


def main(argv=None):
    ap = argparse.ArgumentParser()
    ap.add_argument("prop")
    ap.add_argument("--tier", default=os.environ.get("VERIF_TIER", "quick"), choices=["quick", "thorough"])
    ap.add_argument("--replay")
    ap.add_argument("--jobs", type=int, default=int(os.environ.get("VERIF_JOBS", "16")))
    ap.add_argument("--systems", default=None, help="comma list: restrict to these systems (debugging)")
    ap.add_argument("--no-evidence", action="store_true")
    args = ap.parse_args(argv)
    prop = args.prop
    try:
        seed = int(os.environ.get("VERIF_SEED", "0"))
    except ValueError:
        seed = 0
    if prop not in registry.PROPS:
        print(f"unknown property {prop}")
        return 2
    if args.replay:
        try:
            return do_replay(prop, args.replay)
        except engine.HarnessError as exc:
            print(exc)
            return 2

    t0 = time.time()
    pinfo = registry.PROPS[prop]
    jobs = []
    for sysname in pinfo["systems"]:
        if args.systems and sysname not in args.systems.split(","):
            continue
        try:
            system = registry.get_system(sysname)
            # C19 thorough = the quick configurations with the twin comparison one level deeper (the wider
            # thorough configurations did not finish within half an hour and were never validated)
            cfgs = list(system.configs(prop, "quick" if prop == "C19" else args.tier, seed))
        except Exception as exc:  # noqa: BLE001 - e.g. the tree under test does not import / cannot construct at all
            print(f"HARNESS-ERROR property={prop}: cannot set up system {sysname}: {type(exc).__name__}: {exc}")
            return 2
        for cfg in cfgs:
            if prop == "C06" and args.tier == "thorough" and cfg.get("n") == 2:
                cfg["compile_all"] = True  # every state's C header is compiled and run in these configurations
            if prop == "C19" and args.tier == "thorough":
                cfg["twin_depth"] = 3  # queried-vs-untouched twin comparison three levels deep instead of two
            jobs.append([len(jobs), sysname, cfg, [prop], args.tier])
    if not jobs:
        print("no jobs")
        return 2
    # long jobs first
    order = sorted(jobs, key=lambda j: -j[2].get("cost", 1))
    results = [None] * len(jobs)
    errors = []
    nproc = max(1, min(args.jobs, len(jobs)))
    if nproc == 1:
        for j in order:
            idx, r, err = _run_job(j)
            results[idx] = r
            if err:
                errors.append(err)
    else:
        ctx = multiprocessing.get_context("fork")
        with ctx.Pool(nproc, maxtasksperchild=None) as pool:
            for idx, r, err in pool.imap_unordered(_run_job, order, chunksize=1):
                results[idx] = r
                if err:
                    errors.append(err)
    if errors:
        for e in errors:
            print(e)
        print(f"HARNESS-ERROR property={prop}: {len(errors)} job(s) failed; no verdict")
        return 2

    if os.environ.get("VERIF_PROFILE"):
        slow = sorted(results, key=lambda r: -r["wall_s"])[:8]
        for r in slow:
            print("  slow job:", r["system"], round(r["wall_s"], 1), "s", {k: v for k, v in r["cfg"].items() if k not in ("cost", "seed")})
    findings = load_findings()
    known_seen = {}
    new_viol = []
    for job, r in zip(jobs, results):
        for fid, ent in r.get("known", {}).items():
            f = next(x for x in findings if x["id"] == fid)
            known_seen.setdefault(fid, [f, 0])[1] += ent["count"]
        for item in r["violations"]:
            vj = item["violation"]
            if vj["property"] != prop:
                continue
            f = match_finding(findings, prop, r["system"], vj)
            if f is not None:
                known_seen.setdefault(f["id"], [f, 0])[1] += 1
            else:
                new_viol.append((r["system"], r["cfg"], item["history"], vj))
    for fid, (f, n) in sorted(known_seen.items()):
        print(f"KNOWN-FINDING: property={prop} {f['what']} [{fid}; seen {n}x this run]")
    rc = 0
    shown = set()
    for sysname, cfg, hist, vj in new_viol:
        rc = 1
        sigkey = (sysname, vj["oracle"], tuple(vj.get("guards", [])))
        if sigkey in shown or len(shown) >= 12:
            # many instances of one root cause: print (and keep an artefact for) the first of each signature
            continue
        shown.add(sigkey)
        path = write_replay(prop, sysname, cfg, hist, vj)
        print(f"  system={sysname} oracle={vj['oracle']} guards={vj.get('guards')} detail={json.dumps(vj['detail'], default=str)[:400]}")
        print(f"  history={json.dumps(hist, default=str)[:400]}")
        print(f"VIOLATION property={prop} replay={path}")
        rc = 1

    wall = time.time() - t0
    if not args.no_evidence:
        ev = registry.build_evidence(prop, args.tier, seed, jobs, results, wall, len(new_viol), sorted(known_seen))
        os.makedirs(os.path.join(HERE, "evidence"), exist_ok=True)
        with open(os.path.join(HERE, "evidence", f"{prop}.json"), "w") as fh:
            json.dump(ev, fh, indent=1, default=str)
    tot_s = sum(r["states"] for r in results)
    tot_t = sum(r["transitions"] for r in results)
    print(
        f"{prop} tier={args.tier} seed={seed}: {len(jobs)} configurations, {tot_s} states, {tot_t} transitions, "
        f"{len(new_viol)} violation(s), {len(known_seen)} known finding(s), {wall:.1f}s"
    )
    return rc


if __name__ == "__main__":
    sys.exit(main())
