"""E4 - the C reference reader/writer as a co-process, and the C06 oracles that use it.

Only configurations with the default (documented) FNV-1a hashing rule can be decided by the C
program; keys are bytes or ASCII text (for non-ASCII text the library's FNV-1a works on code
points, which property C18 explicitly leaves outside the C-compatible claim).
"""
from __future__ import annotations

import atexit
import os
import re
import struct
import subprocess
import tempfile

from mc.engine import HarnessError, call

HERE = os.path.dirname(os.path.dirname(os.path.abspath(__file__)))
BIN = os.path.join(HERE, "build", "cref")

_proc = [None, None]  # (Popen, pid of owner)
STATS = {"c_reader_requests": 0, "c_writer_requests": 0, "c_answers_compared": 0, "excluded_exact_half_rounding": 0}


def _server():
    if _proc[0] is None or _proc[1] != os.getpid() or _proc[0].poll() is not None:
        if not os.path.exists(BIN):
            r = subprocess.run(["make", "-s", "-C", HERE, "build"], capture_output=True)
            if r.returncode != 0 or not os.path.exists(BIN):
                raise HarnessError(f"cannot build the C reference: {r.stderr.decode()[-300:]}")
        env = dict(os.environ, ASAN_OPTIONS="detect_leaks=0:abort_on_error=1", UBSAN_OPTIONS="halt_on_error=1")
        _proc[0] = subprocess.Popen([BIN], stdin=subprocess.PIPE, stdout=subprocess.PIPE, stderr=subprocess.PIPE, env=env)
        _proc[1] = os.getpid()
        atexit.register(_close)
    return _proc[0]


def _close():
    p = _proc[0]
    if p is not None and _proc[1] == os.getpid() and p.poll() is None:
        try:
            p.stdin.close()
            p.wait(timeout=2)
        except Exception:  # noqa: BLE001
            p.kill()


def ask(*parts):
    p = _server()
    STATS["c_writer_requests" if str(parts[0]).endswith(("write", "ops")) else "c_reader_requests"] += 1
    STATS["c_answers_compared"] += max(1, len(parts) - 2) if str(parts[0]).endswith("check") else 1
    line = " ".join(str(x) for x in parts) + "\n"
    try:
        p.stdin.write(line.encode())
        p.stdin.flush()
        out = p.stdout.readline()
    except BrokenPipeError:
        out = b""
    if not out:
        err = p.stderr.read().decode(errors="replace")[-600:] if p.poll() is not None else ""
        _proc[0] = None
        return ("CRASH", err)
    return ("ok", out.decode().strip())


def hx(key):
    b = key if isinstance(key, bytes) else key.encode("utf-8")
    return b.hex() if b else "-"


def c_key(key):
    """can the C side hash this key the way the library does? (bytes, or ASCII text)"""
    return isinstance(key, bytes) or key.isascii()


# ---------------------------------------------------------------- Bloom


def bloom_c06(cfg, st, keys, hf, bad):
    if cfg["strat"] != "fnv":
        return
    f, m = st.impl, st.model
    b = call(bytes, f)
    if b[0] != "ok":
        return  # C05's business (known finding F12 for saturated unions)
    blob = b[1]
    probes = [k for k in list(keys) + ["absent-1", b"absent-2", "other-only"] if c_key(k)]
    r = ask("bloom-check", blob.hex(), *[hx(k) for k in probes])
    if r[0] != "ok" or "LENGTH-MISMATCH" in r[1]:
        bad("C06", "bloom.c_reader_accepts_export", {"reply": r, "len": len(blob)})
        return
    head, ans = r[1].split(":")
    cm, ck, half, cadded, _ = head.split()
    if half == "1":
        STATS["excluded_exact_half_rounding"] += 1
        return  # exact .5: C rounds away from zero, Python to even - excluded and counted
    if (int(cm), int(ck)) != (f.number_bits, f.number_hashes):
        bad("C06", "bloom.c_geometry_from_footer", {"c": [cm, ck], "py": [f.number_bits, f.number_hashes]})
    if int(cadded) != f.elements_added:
        bad("C06", "bloom.c_footer_count", {"c": cadded, "py": f.elements_added})
    want = [int(bool(f.check(k))) for k in probes]
    got = [int(x) for x in ans.split()]
    if got != want:
        bad("C06", "bloom.c_reader_agrees", {"keys": [repr(k) for k in probes], "c": got, "py": want})
    # writer: the keys added (bit array is an OR: order and multiplicity do not matter) + the recorded count
    added = [keys[i] for i in m["keys"]]
    if "union" in m["via"]:
        added = added + ["other-only"]
    if all(c_key(k) for k in added):
        w = ask("bloom-write", f.estimated_elements, repr(cfg["p"]), f.elements_added, *[hx(k) for k in added])
        if w[0] != "ok":
            bad("C06", "bloom.c_writer_runs", {"reply": w})
        else:
            half, hexs = w[1].split()
            if half != "1" and bytes.fromhex(hexs) != blob:
                bad("C06", "bloom.c_writer_same_file", {"c": hexs, "py": blob.hex(), "added": [repr(k) for k in added]})
    # padding bits of the last byte stay zero
    if f.number_bits % 8:
        last = blob[f.bloom_length - 1]
        if last >> (f.number_bits % 8):
            bad("C06", "bloom.padding_bits_zero", {"last_byte": last, "number_bits": f.number_bits})
    header_oracle(f, blob, bad, "bloom", counting=False, compile_it=(len(m["keys"]) <= 1 and m["count"] in (0, 1) and cfg["n"] in (1, 5, 10)) or cfg.get("compile_all"))


_PROBE_C = r"""
#include <stdio.h>
#include <stddef.h>
#include "f.h"
int main(void) {
    unsigned long long s = 0;
    for (size_t i = 0; i < sizeof(bloom); i++) s = s * 131ULL + bloom[i];
    printf("%llu %llu %.9g %llu %u %zu %llu\n", (unsigned long long)estimated_elements, (unsigned long long)elements_added,
           (double)false_positive_rate, (unsigned long long)number_bits, (unsigned)number_hashes, sizeof(bloom), s);
    return 0;
}
"""


def header_oracle(f, blob, bad, tag, counting, compile_it=False):
    """export_c_header: the C header carries the same cells and constants as the binary export
    (parsed; with compile_it it is also compiled with gcc together with a probe program and executed)"""
    tmp = tempfile.mkdtemp(prefix="vch")
    try:
        path = os.path.join(tmp, "f.h")
        r = call(f.export_c_header, path)
        if r[0] != "ok":
            bad("C06", f"{tag}.c_header_written", {"obs": r})
            return
        with open(path, encoding="utf-8") as fh:
            text = fh.read()
        if compile_it:
            STATS["c_headers_compiled"] = STATS.get("c_headers_compiled", 0) + 1
            with open(os.path.join(tmp, "probe.c"), "w") as fh:
                fh.write(_PROBE_C)
            cc = subprocess.run(["gcc", "-std=c99", "-Wall", "-Werror", "-o", os.path.join(tmp, "probe"), os.path.join(tmp, "probe.c")],
                                capture_output=True, text=True, cwd=tmp)
            if cc.returncode != 0:
                bad("C06", f"{tag}.c_header_compiles", {"gcc": cc.stderr[-400:]})
            else:
                out = subprocess.run([os.path.join(tmp, "probe")], capture_output=True, text=True).stdout.split()
                hexs = bytes.fromhex(f.export_hex())
                acc = 0
                for byte in hexs:
                    acc = (acc * 131 + byte) % (1 << 64)
                want = [str(f.estimated_elements), str(f.elements_added), "%.9g" % f.false_positive_rate, str(f.number_bits),
                        str(f.number_hashes), str(len(hexs)), str(acc)]
                if out != want:
                    bad("C06", f"{tag}.c_header_compiled_values", {"program_printed": out, "expected": want})
    finally:
        import shutil

        shutil.rmtree(tmp, ignore_errors=True)

    def const(name):
        mm = re.search(rf"const\s+[\w\s]+\b{name}\s*=\s*([^;]+);", text)
        return mm.group(1).strip() if mm else None

    arr = re.search(r"bloom\[\]\s*=\s*\{(.*?)\};", text, re.S)
    if arr is None:
        bad("C06", f"{tag}.c_header_array", {"text": text[:200]})
        return
    data = bytes(int(x, 16) for x in re.findall(r"0x([0-9a-fA-F]{2})", arr.group(1)))
    hexs = bytes.fromhex(f.export_hex())
    if data != hexs:
        bad("C06", f"{tag}.c_header_array_is_hex_export", {"header": data.hex()[:120], "hex": hexs.hex()[:120]})
    ncell = f.bloom_length * (4 if counting else 1)
    if data[:ncell] != blob[:ncell]:
        bad("C06", f"{tag}.c_header_cells", {})
    want = {
        "estimated_elements": str(f.estimated_elements),
        "elements_added": str(f.elements_added),
        "number_bits": str(f.number_bits),
        "number_hashes": str(f.number_hashes),
    }
    for name, val in want.items():
        if const(name) != val:
            bad("C06", f"{tag}.c_header_constant", {"name": name, "header": const(name), "expected": val})
    fpr = const("false_positive_rate")
    try:
        if fpr is None or struct.pack("=f", float(fpr)) != struct.pack("=f", f.false_positive_rate):
            bad("C06", f"{tag}.c_header_constant", {"name": "false_positive_rate", "header": fpr, "expected": f.false_positive_rate})
    except ValueError:
        bad("C06", f"{tag}.c_header_constant", {"name": "false_positive_rate", "header": fpr})


# ---------------------------------------------------------------- counting Bloom


def cbf_c06(cfg, st, keys, hf, bad):
    if cfg["strat"] != "fnv":
        return
    f, m = st.impl, st.model
    b = call(bytes, f)
    if b[0] != "ok":
        bad("C06", "cbf.export_bytes", {"obs": b})
        return
    blob = b[1]
    probes = [k for k in list(keys) + ["absent-1", b"absent-2"] if c_key(k)]
    r = ask("cbloom-check", blob.hex(), *[hx(k) for k in probes])
    if r[0] != "ok" or "LENGTH-MISMATCH" in r[1]:
        bad("C06", "cbf.c_reader_accepts_export", {"reply": r, "len": len(blob)})
        return
    head, ans = r[1].split(":")
    cm, ck, half, cadded, _ = head.split()
    if half == "1":
        return
    if (int(cm), int(ck)) != (f.number_bits, f.number_hashes) or int(cadded) != f.elements_added:
        bad("C06", "cbf.c_geometry_from_footer", {"c": [cm, ck, cadded], "py": [f.number_bits, f.number_hashes, f.elements_added]})
    want = [f.check(k) for k in probes]
    got = [int(x) for x in ans.split()]
    if got != want:
        bad("C06", "cbf.c_reader_agrees", {"keys": [repr(k) for k in probes], "c": got, "py": want})
    if cfg.get("sat"):
        # histories that reach the limit: the writer replays the operations with the documented saturation rules
        if all(c_key(k) for k in keys):
            ops = [("+" if kind == "add" else "-") + hx(keys[i]) + ":" + str(n) for kind, i, n in m["ops"]]
            w = ask("cbloom-ops", f.estimated_elements, repr(cfg["p"]), *ops)
            if w[0] != "ok":
                bad("C06", "cbf.c_writer_runs", {"reply": w})
            else:
                half, hexs = w[1].split()
                if half != "1" and bytes.fromhex(hexs) != blob:
                    bad("C06", "cbf.c_writer_same_file_saturating", {"c": hexs[:200], "py": blob.hex()[:200], "ops": m["ops"]})
    elif all(c_key(k) for k in keys):
        args = []
        for i, k in enumerate(keys):
            if m["true"][i]:
                args += [hx(k), m["true"][i]]
        w = ask("cbloom-write", f.estimated_elements, repr(cfg["p"]), m["total"], *args)
        if w[0] != "ok":
            bad("C06", "cbf.c_writer_runs", {"reply": w})
        else:
            half, hexs = w[1].split()
            if half != "1" and bytes.fromhex(hexs) != blob:
                bad("C06", "cbf.c_writer_same_file", {"c": hexs[:200], "py": blob.hex()[:200], "true": m["true"]})
    header_oracle(f, blob, bad, "cbf", counting=True, compile_it=(sum(m["true"]) <= 2 and cfg["n"] in (3,)) or cfg.get("compile_all"))


# ---------------------------------------------------------------- count-min family


def cms_c06(cfg, st, keys, hf, bad):
    if cfg["strat"] != "fnv":
        return
    f, m = st.impl, st.model
    b = call(bytes, f)
    if b[0] != "ok":
        bad("C06", "cms.export_bytes", {"obs": b})
        return
    blob = b[1]
    probes = [k for k in list(keys) + ["absent-1"] if c_key(k)]
    r = ask("cms-check", blob.hex(), *[hx(k) for k in probes])
    if r[0] != "ok" or "LENGTH-MISMATCH" in r[1]:
        bad("C06", "cms.c_reader_accepts_export", {"reply": r, "len": len(blob)})
        return
    head, ans = r[1].split(":")
    cw, cd, cadded = head.split()
    if (int(cw), int(cd), int(cadded)) != (f.width, f.depth, f.elements_added):
        bad("C06", "cms.c_footer", {"c": [cw, cd, cadded], "py": [f.width, f.depth, f.elements_added]})
    import copy

    g = copy.deepcopy(f)
    for key, triple in zip(probes, ans.split()):
        cmin, cmean, cmm = triple.split(",")
        for mode, cval in (("min", cmin), ("mean", cmean), ("mean-min", cmm)):
            if cval == "NA":
                continue
            g.query_type = mode
            pv = call(g.check, key)
            if pv != ("ok", int(cval)):
                bad("C06", "cms.c_reader_agrees", {"key": repr(key), "mode": mode, "c": cval, "py": pv, "cls": cfg["cls"]})
    args = []
    for i, k in enumerate(keys):
        if m["true"][i]:
            args += [hx(k), m["true"][i]]
    if all(c_key(k) for k in keys):
        w = ask("cms-write", f.width, f.depth, m["total"], *args)
        if w[0] != "ok" or bytes.fromhex(w[1]) != blob:
            bad("C06", "cms.c_writer_same_file", {"c": w[1][:200] if w[0] == "ok" else w, "py": blob.hex()[:200], "true": m["true"]})


# ---------------------------------------------------------------- expanding / rotating


def exp_c06(cfg, st, system, bad):
    if cfg["strat"] != "fnv":
        return
    from mc.systems.exp import pool_key

    f, m = st.impl, st.model
    b = call(bytes, f)
    if b[0] != "ok":
        bad("C06", "exp.export_bytes", {"obs": b})
        return
    blob = b[1]
    probes = [k for k in (pool_key(cfg, i) for i in range(min(m["next"] + 2, 12))) if c_key(k)] + ["absent-1"]
    r = ask("expanding-check", blob.hex(), *[hx(k) for k in probes])
    if r[0] != "ok" or "LENGTH-MISMATCH" in r[1]:
        bad("C06", "exp.c_reader_accepts_export", {"reply": r, "len": len(blob)})
        return
    head, ans = r[1].split(":")
    cm, ck, half, csize, cadded = head.split()
    if half == "1":
        return
    if int(csize) != f.expansions + 1 or int(cadded) != f.elements_added:
        bad("C06", "exp.c_footer", {"c": [csize, cadded], "py": [f.expansions + 1, f.elements_added]})
    want = [int(bool(f.check(k))) for k in probes]
    got = [int(x) for x in ans.split()]
    if got != want:
        bad("C06", "exp.c_reader_agrees", {"keys": [repr(k) for k in probes], "c": got, "py": want})
    members = m.get("members")
    if members is not None and all(c_key(pool_key(cfg, i)) for grp in members for i in grp):
        args = [len(members)]
        for cnt, grp in zip(m["counts"], members):
            args += [cnt, len(grp)] + [hx(pool_key(cfg, i)) for i in grp]
        w = ask("expanding-write", cfg["E"], repr(cfg["p"]), m["adds"], *args)
        if w[0] != "ok":
            bad("C06", "exp.c_writer_runs", {"reply": w})
        else:
            half, hexs = w[1].split()
            if half != "1" and bytes.fromhex(hexs) != blob:
                bad("C06", "exp.c_writer_same_file", {"c": hexs[:300], "py": blob.hex()[:300], "members": members})


# ---------------------------------------------------------------- cuckoo


def cuckoo_c06(cfg, f, table, counting, keys, blob, bad):
    args = [1 if counting else 0, f.bucket_size, f.max_swaps, len(table)]
    for bucket in table:
        args.append(len(bucket))
        for ent in bucket:
            args += list(ent) if counting else [ent]
    w = ask("cuckoo-write", *args)
    if w[0] != "ok" or bytes.fromhex(w[1]) != blob:
        bad("C06", "cuckoo.c_writer_same_file", {"c": w[1][:300] if w[0] == "ok" else w, "py": blob.hex()[:300]})
    if cfg["alt"] == "fnv":
        probes = [k for k, _ in keys if c_key(k)] + ["absent-1"]
        r = ask("cuckoo-check", 1 if counting else 0, f.fingerprint_size_bits, blob.hex(), *[hx(k) for k in probes])
        if r[0] != "ok":
            bad("C06", "cuckoo.c_reader_runs", {"reply": r})
            return
        head, ans = r[1].split(":")
        cap, bs, sw = (int(x) for x in head.split())
        if (cap, bs, sw) != (f.capacity, f.bucket_size, f.max_swaps):
            bad("C06", "cuckoo.c_footer", {"c": [cap, bs, sw], "py": [f.capacity, f.bucket_size, f.max_swaps]})
        want = [int(f.check(k)) for k in probes]
        got = [int(x) for x in ans.split()]
        if not counting:
            got = [int(bool(x)) for x in got]
        if got != want:
            bad("C06", "cuckoo.c_reader_agrees", {"keys": [repr(k) for k in probes], "c": got, "py": want})
