"""E1 - explicit-state explorer over the real pyprobables objects.

A *system* (see class System) closes one data structure with a small driver: a
finite list of configurations, an initial state, a finite event menu, the real
transition function (library calls on deep copies) and oracles tagged with the
property ids they decide.  explore() does breadth-first search with parent
pointers, de-duplicates on a canonical form of the *complete* object state plus
the reference-model state, evaluates the oracles on every transition and every
reached state, and returns counts + violations.  replay() re-executes one
recorded history as a straight-line script.
"""
from __future__ import annotations

import array
import collections
import copy
import copyreg
import hashlib
import os
import signal
import sys
import time
import types

WATCHDOG_S = float(os.environ.get("VERIF_WATCHDOG_S", "2.0"))
LINE_BUDGET = int(os.environ.get("VERIF_LINE_BUDGET", "1000000"))
AUDIT_EVERY = int(os.environ.get("VERIF_AUDIT_EVERY", "50"))


class WatchdogTimeout(BaseException):
    """raised inside a library call that exceeded its CPU / line budget"""


class HarnessError(Exception):
    """the harness itself is inconsistent (nondeterminism, replay divergence)"""


def _on_alarm(signum, frame):  # pragma: no cover - only on hangs
    raise WatchdogTimeout()


_installed = False


def install_watchdog():
    global _installed
    if not _installed:
        signal.signal(signal.SIGVTALRM, _on_alarm)
        _installed = True


def _tracer_factory(budget):
    left = [budget]

    def tracer(frame, event, arg):
        if event == "line":
            left[0] -= 1
            if left[0] <= 0:
                raise WatchdogTimeout()
        return tracer

    return tracer


_MODE = ["timer"]  # "timer" | "lines"


class line_budget_mode:
    """context manager: library calls are bounded by executed lines, not CPU time
    (deterministic; used to confirm a time-out and by --replay)"""

    def __enter__(self):
        self.prev = _MODE[0]
        _MODE[0] = "lines"

    def __exit__(self, *a):
        _MODE[0] = self.prev


class timer_mode:
    """context manager: bound a (long, bulk) library call by CPU time even inside a replay"""

    def __enter__(self):
        self.prev = _MODE[0]
        _MODE[0] = "timer"

    def __exit__(self, *a):
        _MODE[0] = self.prev


def call(fn, *args, **kwargs):
    """Run one library call under the watchdog.

    Returns ("ok", value) | ("exc", type_name, message) | ("timeout",).
    """
    if _MODE[0] == "lines":
        old = sys.gettrace()
        sys.settrace(_tracer_factory(LINE_BUDGET))
        try:
            try:
                res = fn(*args, **kwargs)
            finally:
                sys.settrace(old)
            return ("ok", res)
        except WatchdogTimeout:
            return ("timeout",)
        except Exception as exc:  # noqa: BLE001 - every library exception is an observation
            return ("exc", type(exc).__name__, str(exc)[:160])
    install_watchdog()
    try:
        signal.setitimer(signal.ITIMER_VIRTUAL, WATCHDOG_S)
        try:
            res = fn(*args, **kwargs)
        finally:
            signal.setitimer(signal.ITIMER_VIRTUAL, 0)
        return ("ok", res)
    except WatchdogTimeout:
        return ("timeout",)
    except Exception as exc:  # noqa: BLE001
        return ("exc", type(exc).__name__, str(exc)[:160])


def ok(res):
    return res[0] == "ok"


# --------------------------------------------------------------------------- canon

_ATOMS = (int, str, bytes, bool, float, type(None))


def canon(obj, _depth=0):
    """Hashable identity of the complete state of obj (generic, no attribute names)."""
    t = type(obj)
    if t in _ATOMS:
        return obj
    if t is array.array:
        return ("A", obj.typecode, obj.tobytes())
    if t is list or t is tuple or t is collections.deque:
        return tuple(canon(x, _depth + 1) for x in obj)
    if t is dict:
        return ("D",) + tuple((canon(k, _depth + 1), canon(v, _depth + 1)) for k, v in obj.items())
    if t is set or t is frozenset:
        return ("S",) + tuple(sorted((canon(x, _depth + 1) for x in obj), key=repr))
    if t is bytearray:
        return ("BA", bytes(obj))
    if isinstance(obj, types.MethodType):
        return ("M", obj.__func__.__qualname__)
    if isinstance(obj, (types.FunctionType, types.BuiltinFunctionType, type)):
        return ("F", getattr(obj, "__qualname__", repr(obj)))
    if _depth > 12:
        raise HarnessError("canon: object graph too deep")
    fields = []
    for name in copyreg._slotnames(t):
        if hasattr(obj, name):
            fields.append((name, canon(getattr(obj, name), _depth + 1)))
    d = getattr(obj, "__dict__", None)
    if d:
        for k in d:
            fields.append((k, canon(d[k], _depth + 1)))
    if not fields and not hasattr(obj, "__dict__") and not copyreg._slotnames(t):
        return ("O", t.__qualname__, repr(obj))
    return ("O", t.__qualname__) + tuple(fields)


def digest(key) -> bytes:
    return hashlib.blake2b(repr(key).encode("utf-8", "surrogatepass"), digest_size=16).digest()


# --------------------------------------------------------------------------- violations


class Violation:
    __slots__ = ("prop", "oracle", "detail", "guards")

    def __init__(self, prop, oracle, detail, guards=()):
        self.prop = prop
        self.oracle = oracle
        self.detail = detail
        self.guards = tuple(guards)

    def to_json(self):
        return {"property": self.prop, "oracle": self.oracle, "detail": self.detail, "guards": list(self.guards)}

    def __repr__(self):
        return f"Violation({self.prop}, {self.oracle}, {self.detail!r}, guards={self.guards})"


#: returned by System.check instead of a list: the transition is outside the property's claim
#: (e.g. a call the statement allows to raise and that changed the object); do not expand, no verdict
PRUNE = "PRUNE"


class State:
    """impl = the real object(s); model = plain Python reference data."""

    __slots__ = ("impl", "model")

    def __init__(self, impl, model):
        self.impl = impl
        self.model = model


class System:
    """Interface a driver implements.  All cfg / event values are JSON-serialisable."""

    name = "?"
    #: properties this system has oracles for
    serves = ()
    #: depth of the state currently handed to check_state (set by explore; replay sets 0)
    cur_depth = 0

    def configs(self, prop, tier, seed):
        raise NotImplementedError

    def initial(self, cfg):
        raise NotImplementedError

    def events(self, cfg, st):
        raise NotImplementedError

    def apply(self, cfg, st, ev, choices=None):
        """Execute ev on st IN PLACE (st is already a private copy); step the model.
        Returns the observation (JSON-serialisable)."""
        raise NotImplementedError

    def steps(self, cfg, st, ev):
        """Yield (choices, obs, post) for every resolution of ev from st. Default: one."""
        post = self.clone(st)
        obs = self.apply(cfg, post, ev, None)
        yield None, obs, post

    def step_one(self, cfg, st, ev, choices):
        post = self.clone(st)
        obs = self.apply(cfg, post, ev, choices)
        return obs, post

    def clone(self, st):
        return copy.deepcopy(st)

    def key(self, cfg, st):
        return (canon(st.impl), canon(st.model))

    def check_step(self, cfg, pre, ev, obs, post, props):
        """Step oracles: list of Violation (or PRUNE) for the transition pre --ev/obs--> post.
        Evaluated on EVERY transition."""
        return []

    def check_state(self, cfg, pre, ev, obs, post, props):
        """State oracles of post (pre/ev/obs are context for reporting and guards only: the verdict
        must depend on post alone).  Evaluated once per distinct state - two transitions reaching the
        same (implementation, model) key have the same verdict."""
        return []

    def check(self, cfg, pre, ev, obs, post, props):
        """step + state oracles (used by replay and for the initial state)"""
        v = self.check_step(cfg, pre, ev, obs, post, props)
        if v == PRUNE or v:
            return v
        return self.check_state(cfg, pre, ev, obs, post, props)

    def check_initial(self, cfg, st, props):
        return []

    def max_depth(self, cfg):
        return cfg.get("depth", 4)

    def nontrivial(self, cfg, pre, ev, obs, post):
        """Is this transition non-trivial (collision / eviction / shift ...)?"""
        return True

    def obs_kind(self, ev, obs):
        """coarse observation class, used to expose vacuity"""
        kind = ev[0] if isinstance(ev, (list, tuple)) else str(ev)
        if isinstance(obs, (list, tuple)) and obs and obs[0] in ("ok", "exc", "timeout"):
            tail = obs[1] if obs[0] == "exc" else (repr(obs[1])[:24] if len(obs) > 1 else "")
            return f"{kind}:{obs[0]}:{tail}"
        return f"{kind}:{repr(obs)[:32]}"

    def teardown(self, cfg):
        pass

    def begin(self, cfg):
        """reset per-configuration counters"""
        from mc import cref

        for k in cref.STATS:
            cref.STATS[k] = 0

    def end(self, cfg):
        """extra counters for the evidence file"""
        from mc import cref

        return {k: v for k, v in cref.STATS.items() if v}


def twin_divergence(system, cfg, post, read_only, observe, steps=1, events=None):
    """C19 differential: a clone on which the read-only calls were run must be indistinguishable from an
    untouched clone after the next 1..`steps` events with NO query in between (the observation itself may
    contain queries, so it is taken only at the end of each event sequence) - catches hidden state (caches,
    cursors, padded buckets, stale thresholds) that a before/after comparison cannot see at the moment of the
    query.  `events(cfg, state)` may supply a reduced event menu.  Returns None or the first divergence."""
    q = system.clone(post)
    read_only(q)
    menu = events or system.events

    def walk(a, b, trail, left):
        for ev in menu(cfg, a):
            o1, p1 = system.step_one(cfg, a, ev, None)
            o2, p2 = system.step_one(cfg, b, ev, None)
            if repr(o1) != repr(o2):
                return {"events": trail + [ev], "untouched": repr(o1)[:200], "queried": repr(o2)[:200]}
            if left > 1:
                d = walk(p1, p2, trail + [ev], left - 1)
                if d is not None:
                    return d
            else:
                x, y = observe(p1), observe(p2)
                if x != y:
                    return {"events": trail + [ev], "untouched_obs": repr(x)[:300], "queried_obs": repr(y)[:300]}
        return None

    for n in range(1, steps + 1):
        d = walk(post, q, [], n)
        if d is not None:
            return d
    return None


class Result:
    def __init__(self, system, cfg):
        self.system = system
        self.cfg = cfg
        self.states = 0
        self.transitions = 0
        self.max_depth = 0
        self.closure = False
        self.caps = []
        self.violations = []  # (Violation, history)
        self.obs_kinds = collections.Counter()
        self.nontrivial_states = 0
        self.audited = 0
        self.watchdog_retries = 0
        self.samples = []
        self.pruned = 0
        self.outside_claim = 0
        self.state_checks = 0
        self.known = {}
        self.wall = 0.0
        self.extra = {}

    def to_json(self):
        return {
            "system": self.system,
            "cfg": self.cfg,
            "states": self.states,
            "transitions": self.transitions,
            "max_depth": self.max_depth,
            "closure_reached": self.closure,
            "caps_hit": self.caps,
            "violations": [{"violation": v.to_json(), "history": h} for v, h in self.violations],
            "obs_kinds": dict(self.obs_kinds),
            "nontrivial_states": self.nontrivial_states,
            "audited": self.audited,
            "watchdog_retries": self.watchdog_retries,
            "samples": self.samples,
            "pruned_after_violation": self.pruned,
            "outside_claim": self.outside_claim,
            "state_oracle_evaluations": self.state_checks,
            "known": self.known,
            "wall_s": round(self.wall, 3),
            "extra": self.extra,
        }


def _history(parents, sid):
    out = []
    while sid is not None and parents[sid] is not None:
        psid, ev, ch = parents[sid]
        out.append([ev, ch])
        sid = psid
    out.reverse()
    return out


def explore(system: System, cfg, props, max_violations=20, state_cap=None, known=None):
    """BFS over the real implementation. Returns a Result.
    known(violation) -> finding id or None: violations matching an OPEN known finding are counted per
    finding (first history kept) and do not count towards max_violations; the state behind them is not expanded."""
    t0 = time.time()
    res = Result(system.name, cfg)
    props = set(props)
    system.begin(cfg)
    init = system.initial(cfg)
    maxd = system.max_depth(cfg)
    state_cap = state_cap or cfg.get("state_cap")
    seen = {digest(system.key(cfg, init)): 0}
    parents = [None]
    depths = [0]
    nontriv = [False]
    frontier = collections.deque([(0, init)])
    for v in system.check_initial(cfg, init, props):
        res.violations.append((v, []))
    ntrans = 0
    closure = True
    budget = cfg.get("budget")
    cur_level, level_t0, level_n = 0, 0, 1
    depth_completed = None
    while frontier:
        sid, st = frontier.popleft()
        d = depths[sid]
        if maxd is not None and d >= maxd:
            closure = False
            depth_completed = maxd
            continue
        if d > cur_level:
            # a new BFS level starts: every sequence of <= d events has been executed
            ratio = (ntrans - level_t0) / max(1, level_n)
            level_n = 1 + len(frontier)
            if budget and ntrans + ratio * level_n > budget:
                closure = False
                depth_completed = d
                res.extra["budget_stop"] = {"budget": budget, "depth_completed": d, "unexpanded_frontier": level_n}
                frontier.clear()
                break
            cur_level, level_t0 = d, ntrans
        for ev in system.events(cfg, st):
            for choices, obs, post in system.steps(cfg, st, ev):
                if isinstance(obs, (list, tuple)) and obs and obs[0] == "timeout":
                    # confirm deterministically under the line budget
                    with line_budget_mode():
                        obs2, post2 = system.step_one(cfg, st, ev, choices)
                    res.watchdog_retries += 1
                    obs, post = obs2, post2
                ntrans += 1
                res.obs_kinds[system.obs_kind(ev, obs)] += 1
                if AUDIT_EVERY and ntrans % AUDIT_EVERY == 0:
                    obs2, post2 = system.step_one(cfg, st, ev, choices)
                    res.audited += 1
                    if repr(obs2) != repr(obs) or digest(system.key(cfg, post2)) != digest(system.key(cfg, post)):
                        raise HarnessError(
                            f"HARNESS-NONDETERMINISM system={system.name} cfg={cfg} "
                            f"history={_history(parents, sid)} ev={ev} choices={choices} obs={obs!r} vs {obs2!r}"
                        )
                viols = system.check_step(cfg, st, ev, obs, post, props)
                if viols == PRUNE:
                    res.outside_claim += 1
                    continue
                k = None
                if not viols:
                    k = digest(system.key(cfg, post))
                    if k not in seen:
                        system.cur_depth = d + 1
                        viols = system.check_state(cfg, st, ev, obs, post, props)
                        res.state_checks += 1
                if viols:
                    hist = _history(parents, sid) + [[ev, choices]]
                    fresh = 0
                    for v in viols:
                        fid = known(v) if known else None
                        if fid is not None:
                            ent = res.known.setdefault(fid, {"count": 0, "violation": v.to_json(), "history": hist})
                            ent["count"] += 1
                            continue
                        fresh += 1
                        if len(res.violations) < max_violations:
                            res.violations.append((v, hist))
                    res.pruned += 1
                    if not fresh:
                        continue
                    if len(res.violations) >= max_violations:
                        res.caps.append(f"stopped_after_{max_violations}_violations")
                        closure = False
                        frontier.clear()
                        break
                    continue  # model and implementation diverged: do not expand
                nt = system.nontrivial(cfg, st, ev, obs, post)
                if k not in seen:
                    nsid = len(parents)
                    seen[k] = nsid
                    parents.append((sid, ev, choices))
                    depths.append(d + 1)
                    nontriv.append(bool(nt) or nontriv[sid])
                    if d + 1 > res.max_depth:
                        res.max_depth = d + 1
                    if state_cap and nsid >= state_cap:
                        res.caps.append(f"state_cap={state_cap}")
                        closure = False
                        frontier.clear()
                        break
                    frontier.append((nsid, post))
                elif nt and not nontriv[seen[k]]:
                    nontriv[seen[k]] = True
            else:
                continue
            break
    res.states = len(parents)
    res.transitions = ntrans
    res.closure = closure and not res.caps
    res.extra["depth_completed"] = "closure" if res.closure else depth_completed
    res.nontrivial_states = sum(1 for x in nontriv if x)
    # samples: 2 shortest non-empty + 2 longest histories
    n = len(parents)
    picks = [i for i in (1, 2) if i < n] + [i for i in (n - 2, n - 1) if i > 2]
    res.samples = [_history(parents, i) for i in picks]
    res.extra.update(system.end(cfg))
    res.wall = time.time() - t0
    system.teardown(cfg)
    return res


def replay(system: System, cfg, history, props):
    """Re-execute one history as a straight-line script under the line budget.
    Returns (violations, observations)."""
    props = set(props)
    out = []
    obs_log = []
    with line_budget_mode():
        st = system.initial(cfg)
        for v in system.check_initial(cfg, st, props):
            out.append((v, []))
        for i, (ev, choices) in enumerate(history):
            ev = _tuplify(ev)
            obs, post = system.step_one(cfg, st, ev, choices)
            obs2, post2 = system.step_one(cfg, st, ev, choices)
            if repr(obs) != repr(obs2) or digest(system.key(cfg, post)) != digest(system.key(cfg, post2)):
                raise HarnessError(f"HARNESS-NONDETERMINISM in replay at step {i}: {obs!r} vs {obs2!r}")
            obs_log.append(obs)
            viols = system.check(cfg, st, ev, obs, post, props)
            if viols == PRUNE:
                break
            for v in viols:
                out.append((v, history[: i + 1]))
            if viols:
                break
            st = post
    system.teardown(cfg)
    return out, obs_log


def _tuplify(x):
    if isinstance(x, list):
        return tuple(_tuplify(y) for y in x)
    return x
