"""Hash strategies and key alphabets shared by the Bloom-family / count-min drivers.

Strategies are addressed by name so that configurations stay JSON-serialisable:
  table      hand-written hf(key, depth) backed by a table: positions are chosen, not hoped for
  fnv/md5/sha256   the shipped strategies
  dec_bytes  hash_with_depth_bytes over blake2b
  dec_int    hash_with_depth_int over a crc32-based int function
"""
from __future__ import annotations

import hashlib
import zlib

from probables.hashes import (
    default_fnv_1a,
    default_md5,
    default_sha256,
    hash_with_depth_bytes,
    hash_with_depth_int,
)


@hash_with_depth_bytes
def blake_bytes(key, *args):
    return hashlib.blake2b(key, digest_size=16).digest()


@hash_with_depth_bytes
def salted_bytes(key, idx=0):
    """a bytes digest that really uses the round index it is given"""
    return hashlib.blake2b(key, digest_size=16, salt=int(idx).to_bytes(8, "little")).digest()


@hash_with_depth_int
def crc_int(key, depth=0):
    if isinstance(key, str):
        key = key.encode("utf-8")
    a = zlib.crc32(key, depth)
    b = zlib.adler32(key, depth + 1)
    return (a << 32) | b


SHIPPED = {
    "fnv": default_fnv_1a,
    "md5": default_md5,
    "sha256": default_sha256,
    "dec_bytes": blake_bytes,
    "dec_int": crc_int,
    "dec_salted": salted_bytes,
}

_table_cache = {}


def table_strategy(table_items):
    """hf(key, depth) answering from a table {key: [hash values]}; unknown keys and deeper
    requests fall back to FNV-1a so that the strategy is total (and pure)."""
    tkey = tuple((k, tuple(v)) for k, v in table_items)
    if tkey in _table_cache:
        return _table_cache[tkey]
    table = {k: list(v) for k, v in table_items}

    def table_hash(key, depth=1):
        vals = table.get(key)
        if vals is None:
            return default_fnv_1a(key, depth)
        if depth <= len(vals):
            return list(vals[:depth])
        return list(vals) + default_fnv_1a(key, depth)[len(vals):]

    _table_cache[tkey] = table_hash
    return table_hash


BIG = 1 << 63


def table_for_bits(m, k):
    """Five keys with chosen positions in an m-cell / k-hash structure:
    a: cells 0..k-1          b: shares cell 0 with a, also hits cell m-1
    c: all k positions coincide (cell 7 % m, a byte boundary)   d: cell 8 % m and the last cell, hashes >= 2^63
    e (bytes key): the middle cells."""
    def pos(ps, big=False):
        out = []
        for i in range(k):
            p = ps[i % len(ps)] % m
            out.append(p + m * ((BIG // m + 3 + i) if big else (i + 1)))
        return out

    return [
        ("a", pos(list(range(k)) or [0])),
        ("b", pos([0, m - 1, 1])),
        ("c", pos([7])),
        ("d", pos([8, m - 1], big=True)),
        (b"e", pos([m // 2, m // 2 + 1, 3])),
        ("é中", pos([2, m // 3, m - 2])),
    ]


_named_cache = {}


def named_pool(strategy_name, m, k, seed=0):
    """{'base','shared','last','coinciding'} -> key, for the patterns the pool offers for this geometry"""
    alphabet(strategy_name, m, k, seed)
    return _named_cache[(strategy_name, m, k, seed)]


def pool_keys(strategy_name, m, k, seed=0, count=6):
    """Concrete keys for a shipped strategy, picked by deterministic search so that the wanted
    collision patterns occur for THIS geometry where the pool offers them:
    two keys sharing a cell, one key hitting the last cell, one bytes key, one non-ASCII key.
    Returns (keys, covered_patterns)."""
    hf = SHIPPED[strategy_name]
    prefix = f"s{seed}-" if seed else "key"
    pool = [f"{prefix}{i}" for i in range(400)]
    cells = {key: [h % m for h in hf(key, k)] for key in pool}
    keys = [pool[0]]
    covered = []
    named = {"base": pool[0]}
    base = set(cells[pool[0]])
    for key in pool[1:]:
        if set(cells[key]) & base and key not in keys:
            keys.append(key)
            covered.append("shared_cell")
            named["shared"] = key
            break
    for key in pool[1:]:
        if (m - 1) in cells[key] and key not in keys:
            keys.append(key)
            covered.append("last_cell")
            named["last"] = key
            break
    for key in pool[1:]:
        if len(set(cells[key])) < len(cells[key]) and key not in keys:
            keys.append(key)
            covered.append("coinciding_positions")
            named["coinciding"] = key
            break
    _named_cache[(strategy_name, m, k, seed)] = named
    keys.append(f"{prefix}bytes".encode())
    keys.append(f"{prefix}ü€\U0001f600")
    for key in pool[1:]:
        if len(keys) >= count:
            break
        if key not in keys:
            keys.append(key)
    return keys[:max(count, 5)], covered


def cover_table(m, k, nkeys=16):
    """nkeys keys whose positions are spread so that together they touch (almost) every byte of an m-bit
    array: key i hits bits ((i + t*nkeys) * 8 + (i + t) % 8) mod m for t = 0..k-1, hash values also above 2^32"""
    items = []
    for i in range(nkeys):
        vals = []
        for t in range(k):
            pos = ((i + t * nkeys) * 8 + (i + t) % 8) % m
            vals.append(pos + m * ((1 << 33) // m + 7 + t))
        key = f"cover-{i:02d}-" + "x" * (i % 3) * 9  # some keys longer than 16 bytes
        items.append((key.encode() if i % 4 == 3 else key, vals))
    return items


def strategy(name, m=None, k=None):
    if name == "table":
        return table_strategy(table_for_bits(m, k))
    return SHIPPED[name]


_alpha_cache = {}


def alphabet(name, m, k, seed=0):
    """(keys, hash_function, covered_patterns) for one configuration (memoised: pure)"""
    ck = (name, m, k, seed)
    if ck not in _alpha_cache:
        _alpha_cache[ck] = _alphabet(name, m, k, seed)
    return _alpha_cache[ck]


def corridor_alphabet(name, m, k, seed=0, nkeys=16):
    """a longer key list for the scale-up ("corridor") configurations"""
    if name == "cover":
        items = cover_table(m, k, nkeys)
        return [key for key, _ in items], table_strategy(items)
    prefix = f"c{seed}-"
    keys = [(f"{prefix}{i}-{'y' * (i % 4) * 7}").encode() if i % 3 == 2 else f"{prefix}{i}-{'y' * (i % 4) * 7}" for i in range(nkeys)]
    return keys, SHIPPED[name]


def _alphabet(name, m, k, seed=0):
    if name == "table":
        items = table_for_bits(m, k)
        return [key for key, _ in items], table_strategy(items), ["shared_cell", "last_cell", "coinciding_positions", "hash>=2^63"]
    keys, cov = pool_keys(name, m, k, seed)
    return keys, SHIPPED[name], cov


def key_name(key):
    return repr(key)
