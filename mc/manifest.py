"""python -m mc.manifest  ->  rewrites /verif/MANIFEST.json from the tables below."""
from __future__ import annotations

import json
import os

from mc import registry

HERE = os.path.dirname(os.path.dirname(os.path.abspath(__file__)))

# properties whose checks are built and silent on the unchanged tree
CLAIMED = sorted(registry.PROPS)

TECH = {
    "model_checking": "explicit-state model checking of the real implementation: BFS over deep-copied library objects, "
    "all event sequences within the stated alphabet/depth (closure where finite), lock-step Python reference model",
    "exploration": "exhaustive enumeration of a finite input/configuration lattice against an exact-arithmetic oracle",
    "fault_enumeration": "exhaustive crash-point enumeration: every executed library source line of every bounded "
    "history is a kill point; file snapshot recovered and checked",
}

TEXT = {
    "C01": ("Every add/reload/union/close+reopen/push sequence up to the depth bound over colliding key alphabets, for "
            "every small geometry (all residues of number_bits mod 8, k=1..149) and six hash strategies, is executed on "
            "the real filters; membership of every added key and bit monotonicity are checked after every step.", "4/C01"),
    "C02": ("All add/remove sequences (legitimate removes only) to the depth bound over 3 keys on all widths/depths in "
            "1..3 with colliding table hashes and shipped hashes; lower/upper bound, exactness for isolated keys and the "
            "return-value contract are checked after every step.", "4/C02"),
    "C03": ("All add/remove/expand sequences to the depth bound on tiny cuckoo tables with EVERY resolution of the "
            "filter's random draws enumerated through a choice seam; membership of every outstanding fingerprint after "
            "every normally returning call and after every CuckooFilterFullError.", "4/C03"),
    "C04": ("8-slot quotient filter explored to CLOSURE over alphabets of explicit 32-bit hashes (every reachable "
            "layout incl. wrap-around, shifted runs, full table), plus auto-expand/resize/merge; exact-set oracle and "
            "termination watchdog on every call.", "4/C04"),
    "C05": ("Export/load round trip is a state oracle evaluated on every state the Bloom, counting Bloom, count-min "
            "family, expanding/rotating, cuckoo and on-disk explorations reach, on every channel.", "4/C05"),
    "C06": ("Every explored state's export is handed to an independent C reader and the history to an independent C "
            "writer (cref.c, written from the documented layout); answers / bytes must agree.", "4/C06"),
    "C07": ("Exhaustive lattice of (est_elements, rate), (confidence, error_rate), (bucket_size, error_rate) points "
            "checked with exact rational / 60-digit arithmetic, plus construct->export->load stability.", "4/C07"),
    "C08": ("All add(k,n)/remove(k,n) sequences to the depth bound on counting Bloom filters with coinciding and shared "
            "positions; add-then-remove restores the exported bytes from every reached state; counting cuckoo counts "
            "under every eviction/expansion resolution.", "4/C08"),
    "C09": ("All add(new/dup/forced)/push/reload sequences to the depth bound for est_elements 1..3; per-filter counts "
            "read from the export, growth formula and no-op adds checked after every step.", "4/C09"),
    "C10": ("All add/push/pop/reload sequences to the depth bound for est_elements x max_queue_size in 1..3; queue "
            "bounds and the sliding-window guarantee for EVERY inserted key after every step.", "4/C10"),
    "C11": ("Every executed library line of every history of <=3-4 operations on an on-disk filter is a crash point; "
            "the file as a killed process leaves it is recovered and checked; reopen from other working directories "
            "explored by history replay.", "4/C11"),
    "C12": ("All pairs of reachable operand states (both built by every add/remove sequence to the bound, also as "
            "results of earlier unions) are united/joined and compared cell-for-cell with the single-stream structure; "
            "on-disk operands in either position and one long-lived on-disk operand across add/clear/reopen.", "4/C12, 9.3"),
    "C13": ("Same pair space plus incompatible and foreign operands: intersection cells, exact Jaccard ratio, "
            "None/TypeError/CountMinSketchError rules, operands unchanged.", "4/C13"),
    "C14": ("elements_added (and derived load factors / Bloom statistics) compared with the reference model after "
            "every single transition of every system's exploration.", "4/C14"),
    "C15": ("Bucket-table invariants evaluated on every state of the cuckoo exploration (all eviction resolutions) and "
            "on every table obtained by loading an export of such a state.", "4/C15"),
    "C16": ("All histories to depth 3-4 over the amount alphabet {1, LIMIT-1, LIMIT, LIMIT+1, 2^32, 2^64+5} incl. "
            "coinciding positions and union/join of near-limit structures, against a per-cell saturating reference.", "4/C16"),
    "C17": ("All add (and legitimate remove) sequences to the depth bound over 4 keys on colliding sketches with 1-2 "
            "hitters / thresholds 2-3; table contents compared with the last returned estimates after every step.", "4/C17"),
    "C18": ("Every byte string of length <=2 (and ASCII/UTF-8 text) x depths 1..8 for every shipped strategy, against an "
            "independent FNV-1a; determinism, length, range, prefix stability.", "4/C18"),
    "C19": ("At every reached state of every system's exploration all read-only calls are executed and the public "
            "observation vector compared before/after; a queried clone and an untouched clone are driven through the "
            "same next 1-3 events and compared (hidden state); answers compared with a freshly loaded copy; clear() "
            "compared with a fresh object over a short script.", "4/C19, 9.3"),
    "C20": ("Bitarray(n), n=1..10 (14 thorough), explored to closure (all 2^n states) over every write with valid, "
            "negative, out-of-range and padding indices; list[int] model compared through every reader.", "4/C20"),
}

NOTE = ("Trusted: CPython 3.12 (array/struct/mmap), the explorer in /verif/mc (its determinism is audited by "
        "re-executing every 50th transition), the reference models; bounded: only the stated alphabets, geometries and "
        "depths are covered, the evidence file lists them and says whether the bounded space was enumerated completely.")


def build():
    checks = []
    for pid in sorted(registry.PROPS):
        if pid not in CLAIMED:
            continue
        level = registry.PROPS[pid]["level"]
        text, ref = TEXT[pid]
        checks.append(
            {
                "property_id": pid,
                "quick_cmd": f"./check {pid} --tier quick",
                "thorough_cmd": f"./check {pid} --tier thorough",
                "evidence_file": f"evidence/{pid}.json",
                "replay_cmd_template": f"./check {pid} --replay {{path}}",
                "engine": "mc",
                "level_claimed": {"category": level, "text": text, "design_ref": f"DESIGN.md section {ref}"},
                "level_note": NOTE,
                "technique": TECH[level],
            }
        )
    na = [
        {"property_id": pid, "reason": "work in progress: the check for this property is designed (DESIGN.md section 4) "
         "but not yet built/validated in this commit; model checking applies to it"}
        for pid in sorted(registry.PROPS)
        if pid not in CLAIMED
    ]
    man = {
        "version": 1,
        "setup_cmd": "make -C /verif build",
        "hooks": {
            "guard": "PYPROBABLES_VERIF",
            "enable": "no source hooks: checks import /repo's working tree directly (PYTHONPATH=/verif:/repo); hash "
            "control uses the public hash_function= parameter, the random seam and line tracing are installed by the harness",
            "baseline_off_cmd": "cd /repo && /venv/bin/python -m pytest -ra -q -p no:cacheprovider --timeout=900 "
            "--continue-on-collection-errors",
            "source_commits": [],
            "add_only": True,
        },
        "engines": [
            {
                "name": "mc",
                "path": "mc/",
                "serves_properties": CLAIMED,
                "kind_free_text": "hand-written explicit-state explorer for Python objects (BFS, canonical state hashing, "
                "choice seam for random draws, crash-point enumerator, C reference programs)",
            },
            {
                "name": "cref",
                "path": "cref/cref.c",
                "serves_properties": ["C06"],
                "kind_free_text": "independent C reader/writer of the export formats, written from the documented layouts, "
                "built with ASan+UBSan, used as a co-process by the C06 oracles",
            },
        ],
        "checks": checks,
        "notes": "see DESIGN.md; known findings protocol in known_findings.json",
    }
    if na:
        man["not_applicable"] = na
    return man


if __name__ == "__main__":
    with open(os.path.join(HERE, "MANIFEST.json"), "w") as fh:
        json.dump(build(), fh, indent=1)
    print("MANIFEST.json written:", len(build()["checks"]), "checks")
