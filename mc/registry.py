"""Property -> systems table, system lookup, evidence assembly."""
from __future__ import annotations

import importlib

# property id -> level, systems that serve it, rule text for the evidence file
PROPS = {
    "C01": dict(level="model_checking", systems=["bloom", "exp", "disk"]),
    "C02": dict(level="model_checking", systems=["cms"]),
    "C03": dict(level="model_checking", systems=["cuckoo"]),
    "C04": dict(level="model_checking", systems=["qf"]),
    "C05": dict(level="model_checking", systems=["bloom", "cbf", "cms", "exp", "cuckoo", "disk"]),
    "C06": dict(level="model_checking", systems=["bloom", "cbf", "cms", "exp", "cuckoo", "disk"]),
    "C07": dict(level="exploration", systems=["geom"]),
    "C08": dict(level="model_checking", systems=["cbf", "cuckoo"]),
    "C09": dict(level="model_checking", systems=["exp"]),
    "C10": dict(level="model_checking", systems=["exp"]),
    "C11": dict(level="fault_enumeration", systems=["disk"]),
    "C12": dict(level="model_checking", systems=["pair", "disk"]),
    "C13": dict(level="model_checking", systems=["pair", "disk"]),
    "C14": dict(level="model_checking", systems=["bloom", "cbf", "cms", "exp", "cuckoo", "qf", "disk", "pair"]),
    "C15": dict(level="model_checking", systems=["cuckoo"]),
    "C16": dict(level="model_checking", systems=["sat"]),
    "C17": dict(level="model_checking", systems=["cms"]),
    "C18": dict(level="exploration", systems=["hashes"]),
    "C19": dict(level="model_checking", systems=["bloom", "cbf", "cms", "exp", "cuckoo", "qf", "disk"]),
    "C20": dict(level="model_checking", systems=["bits"]),
}

_MODULES = {
    "bits": "mc.systems.bits",
    "qf": "mc.systems.qf",
    "cuckoo": "mc.systems.cuckoo",
    "bloom": "mc.systems.bloom",
    "cbf": "mc.systems.cbf",
    "cms": "mc.systems.cms",
    "exp": "mc.systems.exp",
    "disk": "mc.systems.disk",
    "pair": "mc.systems.pair",
    "sat": "mc.systems.sat",
    "geom": "mc.systems.geom",
    "hashes": "mc.systems.hashes",
}
_cache = {}


def get_system(name):
    if name not in _cache:
        mod = importlib.import_module(_MODULES[name])
        _cache[name] = mod.SYSTEM
    return _cache[name]


def build_evidence(prop, tier, seed, jobs, results, wall, nviol, known):
    level = PROPS[prop]["level"]
    states = sum(r["states"] for r in results)
    trans = sum(r["transitions"] for r in results)
    nontriv = sum(r["nontrivial_states"] for r in results)
    obs = {}
    for r in results:
        for k, v in r["obs_kinds"].items():
            kk = f"{r['system']}/{k}"
            obs[kk] = obs.get(kk, 0) + v
    per_system = {}
    rules = []
    for r in results:
        ps = per_system.setdefault(
            r["system"],
            dict(configurations=0, states=0, transitions=0, max_depth=0, closure_reached_in=0, caps_hit=[], audited=0,
                 watchdog_retries=0, pruned_after_violation=0, outside_claim=0, extra={}),
        )
        ps["configurations"] += 1
        ps["states"] += r["states"]
        ps["transitions"] += r["transitions"]
        ps["max_depth"] = max(ps["max_depth"], r["max_depth"])
        ps["closure_reached_in"] += 1 if r["closure_reached"] else 0
        ps["caps_hit"] += r["caps_hit"]
        ps["audited"] += r["audited"]
        ps["watchdog_retries"] += r["watchdog_retries"]
        ps["pruned_after_violation"] += r["pruned_after_violation"]
        ps["outside_claim"] += r.get("outside_claim", 0)
        for k, v in r.get("extra", {}).items():
            if k == "depth_completed":
                h = ps["extra"].setdefault("depth_completed_histogram", {})
                h[str(v)] = h.get(str(v), 0) + 1
            elif k == "budget_stop":
                ps["extra"]["configurations_stopped_by_transition_budget"] = (
                    ps["extra"].get("configurations_stopped_by_transition_budget", 0) + 1
                )
            elif isinstance(v, (int, float)) and not isinstance(v, bool):
                ps["extra"][k] = ps["extra"].get(k, 0) + v
            elif isinstance(v, list):
                cur = ps["extra"].setdefault(k, [])
                for x in v:
                    if x not in cur and len(cur) < 64:
                        cur.append(x)
            else:
                ps["extra"].setdefault(k, v)
    for name in per_system:
        sysobj = get_system(name)
        rules.append(f"[{name}] {getattr(sysobj, 'rule', '')}")
    samples = []
    seen_sys = {}
    for r in results:
        # per system: one short and one of the longest histories actually executed
        if not r["samples"] or seen_sys.get(r["system"], 0) >= 2:
            continue
        for h in (r["samples"][0], r["samples"][-1]):
            if len(samples) < 12 and seen_sys.get(r["system"], 0) < 2:
                seen_sys[r["system"]] = seen_sys.get(r["system"], 0) + 1
                samples.append({"system": r["system"], "cfg": {k: v for k, v in r["cfg"].items() if k != "cost"}, "history": h})
    caps = [c for r in results for c in r["caps_hit"]]
    # exhaustive = every configuration enumerated its bounded space completely (closure or all sequences <= depth)
    exhaustive = not caps
    cov = {
        "states": states,
        "transitions": trans,
        "traces_validated_against_impl": trans,
        "configurations": len(results),
        "max_depth": max((r["max_depth"] for r in results), default=0),
        "closure_reached_in_configurations": sum(1 for r in results if r["closure_reached"]),
        "caps_hit": caps,
        "exhaustive": exhaustive,
        "evaluations": trans,
        "distinct_nontrivial": nontriv,
        "rule": " ".join(rules),
        "samples": samples,
        "distinct_observations_per_event_kind": dict(sorted(obs.items())[:200]),
        "per_system": per_system,
        "known_findings_seen": known,
        "note": "every transition is an execution of /repo library code on a deep copy of a real object, compared "
        "with the Python reference model; hence traces_validated_against_impl == transitions",
    }
    return {
        "property_id": prop,
        "tier": tier,
        "seed": seed,
        "level": level,
        "coverage": cov,
        "assumptions": [
            "bounded: only the configurations / alphabets / depths listed in coverage.per_system and DESIGN.md are covered",
            "CPython 3.12 semantics of array/struct/mmap; the interpreter and OS are trusted",
        ],
        "wall_s": round(wall, 2),
        "violations": nviol,
    }
