"""S-BITS: probables.utilities.Bitarray against a list[int] (C20), explored to closure."""
from __future__ import annotations

import math

from mc.engine import State, System, Violation, call

from probables.utilities import Bitarray


def _indices(n):
    pad = 8 * math.ceil(n / 8)
    idx = [-n - 1, -2, -1] + list(range(n)) + [n, n + 1, pad - 1, pad]
    out = []
    for i in idx:
        if i not in out:
            out.append(i)
    return out


class BitsSystem(System):
    name = "bits"
    serves = ("C20",)
    rule = (
        "Bitarray(n) for every n in the size list, BFS to closure (all 2^n bit vectors) over set_bit/clear_bit/"
        "b[i]=v (v in 0,1,2,-1)/clear for every index in {-n-1,-2,-1,0..n-1,n,n+1,last padding bit, first bit past "
        "the padding}; oracle = list[int] model compared through every reader after every event; non-trivial = state "
        "reached by a transition that changed a bit or was rejected."
    )

    def configs(self, prop, tier, seed):
        sizes = range(1, 11) if tier == "quick" else range(1, 15)
        return [{"n": n, "depth": None, "cost": 2**n * n} for n in sizes]

    def max_depth(self, cfg):
        return None

    def initial(self, cfg):
        return State(Bitarray(cfg["n"]), [0] * cfg["n"])

    def events(self, cfg, st):
        n = cfg["n"]
        evs = [("clear",)]
        for i in _indices(n):
            evs.append(("set_bit", i))
            evs.append(("clear_bit", i))
            for v in (0, 1, 2, -1):
                evs.append(("assign", i, v))
        return evs

    def apply(self, cfg, st, ev, choices=None):
        b, m = st.impl, st.model
        n = cfg["n"]
        kind = ev[0]
        if kind == "clear":
            obs = call(b.clear)
            for i in range(n):
                m[i] = 0
            return obs
        i = ev[1]
        valid = 0 <= i < n
        if kind == "set_bit":
            obs = call(b.set_bit, i)
            if valid:
                m[i] = 1
        elif kind == "clear_bit":
            obs = call(b.clear_bit, i)
            if valid:
                m[i] = 0
        else:
            v = ev[2]
            obs = call(b.__setitem__, i, v)
            if valid and v in (0, 1):
                m[i] = v
        return obs

    def nontrivial(self, cfg, pre, ev, obs, post):
        return pre.model != post.model or obs[0] == "exc"

    def check_step(self, cfg, pre, ev, obs, post, props):
        if "C20" not in props:
            return []
        out = []
        n = cfg["n"]

        def bad(oracle, detail):
            out.append(Violation("C20", oracle, detail))

        # the event's own outcome
        kind = ev[0]
        if kind == "clear":
            if obs[0] != "ok":
                bad("bits.clear_returns", {"obs": obs})
        else:
            i = ev[1]
            valid = 0 <= i < n
            vvalid = kind != "assign" or ev[2] in (0, 1)
            if valid and vvalid:
                if obs[0] != "ok":
                    bad("bits.valid_write_accepted", {"ev": ev, "obs": obs})
            else:
                allowed = set()
                if not valid:
                    allowed.add("IndexError")
                if not vvalid:
                    allowed.add("ValueError")
                if obs[0] != "exc" or obs[1] not in allowed:
                    bad("bits.invalid_write_rejected", {"ev": ev, "obs": obs, "allowed": sorted(allowed)})
        return out

    def check_state(self, cfg, pre, ev, obs, post, props):
        if "C20" not in props:
            return []
        out = []
        n = cfg["n"]
        b, m = post.impl, post.model

        def bad(oracle, detail):
            out.append(Violation("C20", oracle, detail))

        # readers agree with the model on every position
        for i in range(n):
            r1 = call(b.check_bit, i)
            r2 = call(b.__getitem__, i)
            r3 = call(b.is_bit_set, i)
            if r1 != ("ok", m[i]) or r2 != ("ok", m[i]) or r3 != ("ok", bool(m[i])) or type(r3[1]) is not bool:
                bad("bits.read_matches_model", {"i": i, "model": m[i], "check_bit": r1, "getitem": r2, "is_bit_set": r3})
                break
        for i in _indices(n):
            if 0 <= i < n:
                continue
            for fn in (b.check_bit, b.__getitem__, b.is_bit_set):
                r = call(fn, i)
                if r[0] != "exc" or r[1] != "IndexError":
                    bad("bits.invalid_read_rejected", {"i": i, "reader": fn.__name__, "obs": r})
        s = call(b.as_string)
        if s != ("ok", "".join(map(str, m))):
            bad("bits.as_string", {"model": "".join(map(str, m)), "obs": s})
        c = call(b.num_bits_set)
        if c != ("ok", sum(m)):
            bad("bits.num_bits_set", {"model": sum(m), "obs": c})
        if b.size != n or b.size_bytes != math.ceil(n / 8):
            bad("bits.size", {"size": b.size, "size_bytes": b.size_bytes})
        return out

    def check_initial(self, cfg, st, props):
        return self.check(cfg, st, ("clear",), ("ok", None), st, props)


SYSTEM = BitsSystem()
