"""S-BLOOM: BloomFilter (in memory) - C01, C05, C06, C14, C19."""
from __future__ import annotations

import io
import os
import shutil
import tempfile

from mc import bloomlib, keys as K
from mc.engine import PRUNE, State, System, Violation, call, twin_divergence

from probables import BloomFilter

RATES = (0.5, 0.3, 0.1, 0.05, 0.01, 1e-3)
RATES_THOROUGH = RATES + (1e-6, 1e-20, 1.4e-45)
STRATS = ("table", "fnv", "md5", "sha256", "dec_bytes", "dec_int")


def _geom(n, p):
    f = BloomFilter(n, p)
    return f.number_bits, f.number_hashes


class BloomSystem(System):
    name = "bloom"
    serves = ("C01", "C05", "C06", "C14", "C19")
    rule = (
        'BloomFilter(est_elements n, rate p) for n=1..12 x 6 rates (thorough: n<=40, 9 rates incl. the float32 floor '
        '1.4e-45 = 149 hashes) x 6 hash strategies (table with chosen positions, fnv-1a, md5, sha256, two decorator '
        'built); 6 keys (str, bytes, non-ASCII, two sharing a cell, coinciding positions, last cell, hashes >= 2^63); '
        'events add(key) / reload through bytes, hex string, file path (the loaded object replaces the object) / '
        'union with a fixed second filter, with an empty filter (result replaces the object), with a filter whose geometry '
        'differs only inside the last byte (either direction; must not yield a filter that forgets keys) / clear; all sequences '
        'to the depth bound, de-duplicated on full object state; non-trivial = state in which at least two keys share a set '
        'cell or that was reached through a reload/union.'
    )

    def configs(self, prop, tier, seed):
        cfgs = []
        ns = range(1, 13) if tier == "quick" else list(range(1, 17)) + [24, 31, 40]
        rates = RATES if tier == "quick" else RATES_THOROUGH
        strats = STRATS
        depth = 5 if tier == "quick" else 6
        if prop in ("C05", "C19") and tier == "quick":
            ns = (1, 2, 3, 5, 8, 12)
            depth = 3
        if prop == "C06":
            depth = 3 if tier == "quick" else 5
        if tier == "thorough":
            # sized so that a thorough run of one property stays well under half an hour on 16 cores
            if prop in ("C05", "C06"):
                depth, ns = 4, list(range(1, 13)) + [16, 24, 40]
            elif prop in ("C19", "C14"):
                depth, ns = 4, list(range(1, 13))
            else:
                depth, ns = 5, list(range(1, 13)) + [16, 24, 40]
        if prop == "C14" and tier == "quick":
            depth = 4
        seen = set()
        for n in ns:
            for p in rates:
                try:
                    m, k = _geom(n, p)
                except Exception:  # noqa: BLE001 - not an accepted sizing
                    continue
                for s in strats:
                    if (m, k, s) in seen:
                        continue
                    seen.add((m, k, s))
                    d = depth
                    if tier == "quick":
                        if prop in ("C05", "C19") and s not in ("table", "fnv"):
                            continue  # export/load and queries do not depend on the strategy beyond the probe positions
                        if prop in ("C01", "C14") and s != "table" and n not in (1, 2, 3, 5, 8, 12):
                            continue  # the table strategy on all geometries, the other five on half of them
                        if prop == "C14" and s in ("sha256", "dec_bytes"):
                            continue
                        if prop == "C01" and s not in ("table", "fnv"):
                            d = depth - 1
                    cfgs.append(dict(n=n, p=p, strat=s, depth=d, seed=seed, m=m, k=k, cost=600 * 6 ** (d - 3)))
        # scale-up ("corridor") configurations: ordinary, larger geometries (bit arrays of 60 bytes .. 6 kB, i.e. longer
        # than any 32/64/4096-byte block) driven along a narrow event menu (add the next key, reload, one union)
        big = ((50, 0.01), (100, 0.05), (200, 0.01)) + (((5000, 0.01),) if prop in ("C01", "C05", "C14") or tier == "thorough" else ())
        for n, p in big:
            m, k = _geom(n, p)
            for s in ("cover", "fnv"):
                small = n >= 1000  # a 6 kB array: a handful of states is enough to cross every block boundary
                cfgs.append(dict(n=n, p=p, strat=s, depth=(5 if small else 12) if tier == "quick" else (8 if small else 18), seed=seed,
                                 m=m, k=k, corridor=True, nkeys=(4 if small else 8) if tier == "quick" else (6 if small else 16),
                                 cost=40000))
        if prop == "C06":
            cfgs = [c for c in cfgs if c["strat"] == "fnv"]  # the C reference implements the documented FNV-1a rule
        if seed:
            r = seed % len(cfgs)
            cfgs = cfgs[r:] + cfgs[:r]
        return cfgs

    # ---- helpers
    _corr = {}

    def _alpha(self, cfg):
        if cfg.get("corridor"):
            ck = (cfg["strat"], cfg["m"], cfg["k"], cfg["seed"], cfg["nkeys"])
            if ck not in self._corr:
                keys, hf = K.corridor_alphabet(cfg["strat"], cfg["m"], cfg["k"], cfg["seed"], cfg["nkeys"])
                self._corr[ck] = (keys, hf, ["every_byte" if cfg["strat"] == "cover" else "random_positions"])
            return self._corr[ck]
        return K.alphabet(cfg["strat"], cfg["m"], cfg["k"], cfg["seed"])

    _near_cache = {}

    def _near(self, cfg):
        """(n, p') whose filter has the same number of hashes and bytes but another number of bits, or None:
        not a compatible operand - a union with it must not yield a filter that forgets keys"""
        ck = (cfg["n"], cfg["p"])
        if ck not in self._near_cache:
            found = None
            for j in range(1, 300):
                try:
                    c = BloomFilter(cfg["n"], cfg["p"] * (1 + j * 0.004))
                except Exception:  # noqa: BLE001
                    break
                if c.number_bits != cfg["m"] and c.number_hashes == cfg["k"] and c.bloom_length == -(-cfg["m"] // 8):
                    found = cfg["p"] * (1 + j * 0.004)
                    break
            self._near_cache[ck] = found
        return self._near_cache[ck]

    def _other(self, cfg, hf, keys):
        o = BloomFilter(cfg["n"], cfg["p"], hash_function=hf)
        o.add(keys[-1])
        o.add("other-only")
        return o

    def initial(self, cfg):
        keys, hf, _ = self._alpha(cfg)
        f = BloomFilter(cfg["n"], cfg["p"], hash_function=hf)
        return State(f, {"keys": [], "count": 0, "via": []})

    def events(self, cfg, st):
        keys, _, _ = self._alpha(cfg)
        if cfg.get("corridor"):
            nxt = [i for i in range(len(keys) - 1) if i not in st.model["keys"]]
            evs = [("add", nxt[0])] if nxt else []
            if len(nxt) > 1 and len(st.model["keys"]) % 4 == 1:
                evs.append(("add_alt2", nxt[0], nxt[1]))
            evs += [("reload", ch) for ch in ("bytes", "hex", "file")]
            if "union" not in st.model["via"]:
                evs.append(("union", "other"))
            if st.model["keys"]:
                evs.append(("clear",))
            return evs
        evs = [("add", i) for i in range(len(keys))]
        # the *_alt interface: hashes computed up front for two keys, then inserted (answers must be independent lists);
        # and a hash list longer than number_hashes (only the first number_hashes values count)
        evs.append(("add_alt2", 0, 1))
        evs.append(("add_alt_long", 2))
        evs += [("reload", ch) for ch in ("bytes", "hex", "file")]
        evs.append(("union", "other"))
        evs.append(("union", "empty"))
        evs.append(("union", "derived"))
        if self._near(cfg) is not None:
            evs.append(("union", "near"))
        evs.append(("clear",))
        return evs

    def apply(self, cfg, st, ev, choices=None):
        keys, hf, _ = self._alpha(cfg)
        f, m = st.impl, st.model
        kind = ev[0]
        if kind == "add":
            obs = call(f.add, keys[ev[1]])
            if obs[0] == "ok":
                if ev[1] not in m["keys"]:
                    m["keys"] = sorted(m["keys"] + [ev[1]])
                m["count"] += 1
            return obs
        if kind == "add_alt2":
            i, j = ev[1], ev[2]
            obs = call(lambda: (lambda h1, h2: (f.add_alt(h1), f.add_alt(h2)))(f.hashes(keys[i]), f.hashes(keys[j])))
            if obs[0] == "ok":
                m["keys"] = sorted(set(m["keys"]) | {i, j})
                m["count"] += 2
                return ("ok", None)
            return obs
        if kind == "add_alt_long":
            i = ev[1]
            obs = call(lambda: f.add_alt(f.hashes(keys[i], f.number_hashes + 3)))
            if obs[0] == "ok":
                m["keys"] = sorted(set(m["keys"]) | {i})
                m["count"] += 1
            return obs
        if kind == "clear":
            obs = call(f.clear)
            if obs[0] == "ok":
                m["keys"], m["count"], m["via"] = [], 0, []
            return obs
        if kind == "reload":
            ch = ev[1]
            if ch == "bytes":
                r = call(lambda: BloomFilter.frombytes(bytes(f), hash_function=hf))
            elif ch == "hex":
                r = call(lambda: BloomFilter(hex_string=f.export_hex(), hash_function=hf))
            else:
                tmp = tempfile.mkdtemp(prefix="vbr")
                try:
                    path = os.path.join(tmp, "r.blm")
                    r = call(lambda: (f.export(path), BloomFilter(filepath=path, hash_function=hf))[1])
                finally:
                    shutil.rmtree(tmp, ignore_errors=True)
            if r[0] == "ok":
                st.impl = r[1]
                if "reload" not in m["via"]:
                    m["via"] = sorted(m["via"] + ["reload"])
                return ("ok", None)
            return r
        if kind == "union":
            if len(ev) > 1 and ev[1] == "derived":
                # the operand is itself a union result holding one key (its element count is an estimate, often 0)
                src = BloomFilter(cfg["n"], cfg["p"], hash_function=hf)
                src.add(keys[2])
                d = call(src.union, BloomFilter(cfg["n"], cfg["p"], hash_function=hf))
                if d[0] != "ok" or d[1] is None:
                    return ("exc", "union_with_empty", repr(d)[:100])
                r = call(f.union, d[1])
                if r[0] == "ok" and r[1] is not None:
                    st.impl = r[1]
                    m["keys"] = sorted(set(m["keys"]) | {2})
                    m["count"] = r[1].elements_added
                    if "union_derived" not in m["via"]:
                        m["via"] = sorted(m["via"] + ["union_derived"])
                    return ("ok", "filter")
                return ("ok", None) if r[0] == "ok" else r
            empty = len(ev) > 1 and ev[1] in ("empty", "near")
            if len(ev) > 1 and ev[1] == "near":
                other = BloomFilter(cfg["n"], self._near(cfg), hash_function=hf)
                other.add("near-only")
            else:
                other = BloomFilter(cfg["n"], cfg["p"], hash_function=hf) if empty else self._other(cfg, hf, keys)
            r = call(f.union, other)
            if len(ev) > 1 and ev[1] == "near":
                # either direction: if a filter comes back at all it must still report every key of this filter
                lost = []
                for res in (r, call(other.union, f)):
                    if res[0] == "ok" and res[1] is not None:
                        lost += [i for i in m["keys"] if not call(res[1].check, keys[i])[1:] == (True,)]
                return ("ok", "near", sorted(set(lost)))
            if r[0] == "ok" and r[1] is not None:
                st.impl = r[1]
                last = len(keys) - 1
                if last not in m["keys"] and not empty:
                    m["keys"] = sorted(m["keys"] + [last])
                m["count"] = r[1].elements_added  # verified against the reference estimate by the C14 step oracle
                tag = "union_empty" if empty else "union"
                if tag not in m["via"]:
                    m["via"] = sorted(m["via"] + [tag])
                return ("ok", "filter")
            return ("ok", None) if r[0] == "ok" else r
        raise ValueError(ev)

    def nontrivial(self, cfg, pre, ev, obs, post):
        if ev[0] in ("reload", "union"):
            return True
        keys, hf, _ = self._alpha(cfg)
        m, k = cfg["m"], cfg["k"]
        cells = [set(h % m for h in hf(keys[i], k)) for i in post.model["keys"]]
        return any(cells[i] & cells[j] for i in range(len(cells)) for j in range(i + 1, len(cells)))

    # ---- oracles
    def _guards(self, post):
        f = post.impl
        g = []
        try:
            if f.elements_added < 0:
                g.append("bloom_result_all_bits_set")
        except Exception:  # noqa: BLE001
            pass
        return g

    def check_step(self, cfg, pre, ev, obs, post, props):
        out = []
        guards = self._guards(post)

        def bad(prop, oracle, detail):
            if prop in props:
                out.append(Violation(prop, oracle, detail, guards))

        if obs[0] != "ok":
            if ev[0] == "reload":
                # export + load must work (C05); for the other properties there is no loaded object to ask
                bad("C05", "bloom.reload_event", {"ev": ev, "obs": obs})
                return out or PRUNE
            for p in ("C01", "C05", "C14", "C19"):
                bad(p, "bloom.event_returns", {"ev": ev, "obs": obs})
            return out
        if ev[0] == "union" and obs[1] == "near":
            if obs[2]:
                bad("C01", "bloom.union_result_reports_added_keys", {"ev": ev, "lost_key_indices": obs[2]})
            return out
        if ev[0] == "union" and obs[1] is None:
            bad("C01", "bloom.union_of_compatible_is_filter", {"ev": ev})
        # C01: bits are only ever added (except by clear)
        if ev[0] != "clear" and "C01" in props:
            a, b = bloomlib.cells_of(pre.impl), bloomlib.cells_of(post.impl)
            if len(a) != len(b) or any((x & ~y) for x, y in zip(a, b)):
                bad("C01", "bloom.bits_monotone", {"ev": ev, "before": a, "after": b})
        # C14: the counter moves as documented on this step
        if "C14" in props:
            n0, n1 = pre.impl.elements_added, post.impl.elements_added
            if ev[0] in ("add", "add_alt_long") and n1 != n0 + 1:
                bad("C14", "bloom.add_counts_one", {"before": n0, "after": n1})
            if ev[0] == "add_alt2" and n1 != n0 + 2:
                bad("C14", "bloom.add_counts_one", {"before": n0, "after": n1, "ev": ev})
            if ev[0] == "reload" and n1 != n0:
                bad("C14", "bloom.reload_keeps_count", {"before": n0, "after": n1, "channel": ev[1]})
            if ev[0] == "clear" and n1 != 0:
                bad("C14", "bloom.clear_resets_count", {"after": n1})
            if ev[0] == "union" and obs[1] == "filter":
                g = post.impl
                x = bloomlib.popcount_cells(bloomlib.cells_of(g), False)
                acc = bloomlib.ref_estimate(g.number_bits, g.number_hashes, x)
                if n1 not in acc:
                    bad("C14", "bloom.union_count_is_estimate", {"accepted": sorted(acc), "obs": n1})
        return out

    def check_state(self, cfg, pre, ev, obs, post, props):
        out = []
        keys, hf, _ = self._alpha(cfg)
        f, m = post.impl, post.model
        guards = self._guards(post)

        def bad(prop, oracle, detail):
            if prop in props:
                out.append(Violation(prop, oracle, detail, guards))

        if "C01" in props:
            for i in m["keys"]:
                r1, r2 = call(f.check, keys[i]), call(f.__contains__, keys[i])
                r3 = call(lambda: f.check_alt(f.hashes(keys[i], f.number_hashes + 2)))
                if r3 != ("ok", True):
                    bad("C01", "bloom.added_key_present_via_check_alt", {"key": repr(keys[i]), "check_alt(longer hash list)": r3, "after": ev})
                    break
                if r1 != ("ok", True) or r2 != ("ok", True):
                    bad("C01", "bloom.added_key_present", {"key": repr(keys[i]), "check": r1, "in": r2, "after": ev,
                                                            "geometry": [cfg["m"], cfg["k"]], "strategy": cfg["strat"]})
                    break
        if "C14" in props:
            if f.elements_added != m["count"]:
                bad("C14", "bloom.elements_added_is_add_calls", {"expected": m["count"], "obs": f.elements_added, "after": ev})
            bloomlib.stats_oracle(f, False, None, bad)
        if "C05" in props:
            probes = list(keys) + ["absent-1", b"absent-2", "absent-é"]
            bloomlib.bloom_roundtrip(f, BloomFilter, hf, probes, bad, "bloom")
        if "C06" in props:
            from mc import cref

            cref.bloom_c06(cfg, post, keys, hf, bad)
        if "C19" in props:
            self._queries(cfg, post, keys, hf, bad)
        return out

    def _ro(self, cfg, f, keys, hf, other):
        """every read-only call of a Bloom filter, f on either side of the set operations"""
        for k in list(keys) + ["absent-1", b"absent-2"]:
            call(f.check, k)
            call(f.__contains__, k)
            call(f.hashes, k)
            call(f.hashes, k, 3)
        call(str, f)
        call(f.estimate_elements)
        call(f.current_false_positive_rate)
        call(f.export_size)
        call(bytes, f)
        call(f.export_hex)
        call(f.export, io.BytesIO())
        tmp = tempfile.mkdtemp(prefix="vbq")
        try:
            call(f.export, os.path.join(tmp, "q.blm"))
            call(f.export_c_header, os.path.join(tmp, "q.h"))
        finally:
            shutil.rmtree(tmp, ignore_errors=True)
        # both sides of the set operations are read-only (results are new objects)
        call(f.union, other)
        call(f.intersection, other)
        call(f.jaccard_index, other)
        call(other.union, f)
        call(other.intersection, f)
        call(other.jaccard_index, f)

    def _queries(self, cfg, st, keys, hf, bad):
        pristine = self.clone(st)  # taken before any query of this state: the "untouched" twin
        f = st.impl
        before = bloomlib.bloom_observation(f)
        other = self._other(cfg, hf, keys)
        ob = bloomlib.bloom_observation(other)
        self._ro(cfg, f, keys, hf, other)
        after = bloomlib.bloom_observation(f)
        if before != after:
            bad("C19", "bloom.queries_do_not_mutate", {"before": repr(before)[:300], "after": repr(after)[:300]})
        if bloomlib.bloom_observation(other) != ob:
            bad("C19", "bloom.set_ops_do_not_mutate_operand", {})
        def full_obs(x):
            g = x.impl
            return (bloomlib.bloom_observation(g), call(g.estimate_elements), call(g.current_false_positive_rate),
                    [call(g.check, k) for k in keys], call(str, g))

        if self.cur_depth <= cfg.get("twin_depth", 2):
            steps = 3 if self.cur_depth <= cfg.get("twin2_depth", 1) else 1

            def menu(c, x):
                return [e for e in self.events(c, x) if e[0] in ("add", "clear") or e == ("union", "other")]

            div = twin_divergence(self, cfg, pristine, lambda q: self._ro(cfg, q.impl, keys, hf, self._other(cfg, hf, keys)), full_obs, steps, menu)
            if div is not None:
                bad("C19", "bloom.queried_twin_diverges_later", div)
        # every explored object has been queried at all its ancestor states: its answers must equal those of an
        # object freshly loaded from its export (which carries no hidden query state)
        bb = call(bytes, f)
        if bb[0] == "ok":
            fresh_load = call(lambda: BloomFilter.frombytes(bb[1], hash_function=hf))
            if fresh_load[0] == "ok":
                def answers(x):
                    return ([call(x.check, k) for k in list(keys) + ["absent-1"]], call(x.estimate_elements),
                            call(x.current_false_positive_rate), call(str, x))

                if answers(f) != answers(fresh_load[1]):
                    bad("C19", "bloom.answers_independent_of_earlier_queries", {"live": repr(answers(f))[:300],
                                                                                 "fresh_load": repr(answers(fresh_load[1]))[:300]})
        # clear() == fresh object, also one step later
        g = self.clone(st).impl
        c = call(g.clear)
        fresh = BloomFilter(cfg["n"], cfg["p"], hash_function=hf)
        if c[0] != "ok" or bloomlib.bloom_observation(g) != bloomlib.bloom_observation(fresh):
            bad("C19", "bloom.clear_equals_fresh", {"cleared": repr(bloomlib.bloom_observation(g))[:300],
                                                     "fresh": repr(bloomlib.bloom_observation(fresh))[:300]})
        else:
            g.add(keys[0])
            fresh.add(keys[0])
            if bloomlib.bloom_observation(g) != bloomlib.bloom_observation(fresh):
                bad("C19", "bloom.clear_equals_fresh_one_step_later", {})

    def check_initial(self, cfg, st, props):
        return self.check_state(cfg, st, ("init",), ("ok", None), st, props)


SYSTEM = BloomSystem()
