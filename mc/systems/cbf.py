"""S-CBF: CountingBloomFilter - C08, C05, C06, C14, C19."""
from __future__ import annotations

import io
import os
import shutil
import tempfile

from mc import bloomlib, keys as K
from mc.engine import PRUNE, State, System, Violation, call, twin_divergence

from probables import CountingBloomFilter

GEOMS = ((1, 0.5), (2, 0.3), (3, 0.1), (5, 0.05))


def _geom(n, p):
    f = CountingBloomFilter(n, p)
    return f.number_bits, f.number_hashes


class CBFSystem(System):
    name = "cbf"
    serves = ("C08", "C05", "C06", "C14", "C19")
    rule = (
        "CountingBloomFilter for 4 small geometries x {table hash with coinciding/shared positions, fnv-1a, md5}; keys "
        "a,b,c(+bytes, non-ASCII); events add(key,n) and remove(key,n) with n in 1..3 where n never exceeds the key's "
        "outstanding count, remove of a key the filter reports absent, reload through bytes/hex/file, clear; all "
        "sequences to the depth bound; oracle = dict of true counts; from every reached state add-then-remove of "
        "every (key, n) must restore the exported bytes; non-trivial = state where two keys share a cell or a key's "
        "positions coincide."
    )

    def configs(self, prop, tier, seed):
        cfgs = []
        geoms = GEOMS if tier == "quick" else GEOMS + ((8, 0.01), (4, 0.2), (12, 0.3))
        depth = 6 if tier == "quick" else 8
        if prop in ("C05", "C06", "C19"):
            depth = 4 if tier == "quick" else 6
        strats = ("table", "fnv", "md5") if tier == "quick" else ("table", "fnv", "md5", "sha256", "dec_bytes", "dec_int")
        for n, p in geoms:
            m, k = _geom(n, p)
            for s in strats:
                cfgs.append(dict(n=n, p=p, strat=s, depth=depth, seed=seed, m=m, k=k, nkeys=3 if tier == "quick" else 4,
                                 cost=4000))
        # scale-up: 131 counters with keys touching every region of the array; amounts at the byte boundaries of a counter
        m, k = _geom(21, 0.05)
        cfgs.append(dict(n=21, p=0.05, strat="cover", depth=4 if tier == "quick" else 5, seed=seed, m=m, k=k, nkeys=4, cost=4000))
        m, k = _geom(3, 0.1)
        cfgs.append(dict(n=3, p=0.1, strat="table", depth=3 if tier == "quick" else 4, seed=seed, m=m, k=k, nkeys=2,
                         amounts=[255, 256, 65536, 1 << 24], cost=4000))
        if prop == "C06":
            cfgs = [c for c in cfgs if c["strat"] == "fnv"]  # the C reference implements the documented FNV-1a rule
            # histories that drive cells to the limit and back: the C writer replays them with the saturation rules
            for n, p in ((3, 0.1), (5, 0.05)):
                m, k = _geom(n, p)
                cfgs.append(dict(n=n, p=p, strat="fnv", depth=3 if tier == "quick" else 4, seed=seed, m=m, k=k, nkeys=3, sat=True,
                                 cost=m * k * 4))
        if seed:
            r = seed % len(cfgs)
            cfgs = cfgs[r:] + cfgs[:r]
        return cfgs

    def _alpha(self, cfg):
        if cfg["strat"] == "cover":
            keys, hf = K.corridor_alphabet("cover", cfg["m"], cfg["k"], cfg["seed"], 16)
            return [keys[0], keys[5], keys[10], keys[15]][: cfg["nkeys"]], hf, ["every_region"]
        keys, hf, cov = K.alphabet(cfg["strat"], cfg["m"], cfg["k"], cfg["seed"])
        if cfg["strat"] == "table":
            # a (cells 0..k-1), b (shares cell 0 / last cell), c (all positions coincide), bytes key
            keys = [keys[0], keys[1], keys[2], keys[4]][: cfg["nkeys"]]
        else:
            named = K.named_pool(cfg["strat"], cfg["m"], cfg["k"], cfg["seed"])
            pref = [named.get(x) for x in ("base", "shared", "coinciding", "last")]
            pref = [x for x in pref if x is not None]
            keys = (pref + [x for x in keys if x not in pref])[: max(cfg["nkeys"], 4 if "coinciding" in named else 3)]
        return keys, hf, cov

    def initial(self, cfg):
        keys, hf, _ = self._alpha(cfg)
        f = CountingBloomFilter(cfg["n"], cfg["p"], hash_function=hf)
        model = {"true": [0] * len(keys), "total": 0}
        if cfg.get("sat"):
            model["ops"] = []
        return State(f, model)

    def events(self, cfg, st):
        keys, _, _ = self._alpha(cfg)
        evs = []
        amounts = (1, 2**32 - 2, 2**32 - 1) if cfg.get("sat") else tuple(cfg.get("amounts", (1, 2, 3)))
        for i in range(len(keys)):
            for n in amounts:
                evs.append(("add", i, n))
        for i in range(len(keys)):
            for n in amounts:
                if n <= st.model["true"][i]:
                    evs.append(("remove", i, n))
        if cfg.get("sat"):
            return evs
        for i in range(len(keys)):
            if st.model["true"][i] == 0:
                r = call(st.impl.check, keys[i])
                if r == ("ok", 0):
                    evs.append(("remove_absent", i, 2))
        evs += [("reload", ch) for ch in ("bytes", "hex", "file")]
        evs.append(("clear",))
        return evs

    def apply(self, cfg, st, ev, choices=None):
        keys, hf, _ = self._alpha(cfg)
        f, m = st.impl, st.model
        kind = ev[0]
        if kind == "add":
            obs = call(f.add, keys[ev[1]], ev[2])
            if obs[0] == "ok":
                m["true"][ev[1]] += ev[2]
                m["total"] += ev[2]
                if "ops" in m:
                    m["ops"] = m["ops"] + [["add", ev[1], ev[2]]]
            return obs
        if kind == "remove":
            obs = call(f.remove, keys[ev[1]], ev[2])
            if obs[0] == "ok":
                m["true"][ev[1]] -= ev[2]
                m["total"] -= ev[2]
                if "ops" in m:
                    m["ops"] = m["ops"] + [["remove", ev[1], ev[2]]]
            return obs
        if kind == "remove_absent":
            return call(f.remove, keys[ev[1]], ev[2])
        if kind == "clear":
            obs = call(f.clear)
            if obs[0] == "ok":
                m["true"] = [0] * len(keys)
                m["total"] = 0
            return obs
        if kind == "reload":
            ch = ev[1]
            if ch == "bytes":
                r = call(lambda: CountingBloomFilter.frombytes(bytes(f), hash_function=hf))
            elif ch == "hex":
                r = call(lambda: CountingBloomFilter(hex_string=f.export_hex(), hash_function=hf))
            else:
                tmp = tempfile.mkdtemp(prefix="vcr")
                try:
                    path = os.path.join(tmp, "r.cbm")
                    r = call(lambda: (f.export(path), CountingBloomFilter(filepath=path, hash_function=hf))[1])
                finally:
                    shutil.rmtree(tmp, ignore_errors=True)
            if r[0] == "ok":
                st.impl = r[1]
                return ("ok", None)
            return r
        raise ValueError(ev)

    def key(self, cfg, st):
        # a file-loaded filter remembers its (temporary) path: not part of the state
        from mc.engine import canon

        c = canon(st.impl)
        c = tuple(x for x in c if not (isinstance(x, tuple) and x and x[0] == "_filepath"))
        return (c, canon(st.model))

    def nontrivial(self, cfg, pre, ev, obs, post):
        keys, hf, _ = self._alpha(cfg)
        m, k = cfg["m"], cfg["k"]
        live = [i for i, t in enumerate(post.model["true"]) if t > 0]
        cells = [[h % m for h in hf(keys[i], k)] for i in live]
        if any(len(set(c)) < len(c) for c in cells):
            return True
        return any(set(cells[i]) & set(cells[j]) for i in range(len(cells)) for j in range(i + 1, len(cells)))

    def check_step(self, cfg, pre, ev, obs, post, props):
        out = []

        def bad(prop, oracle, detail):
            if prop in props:
                out.append(Violation(prop, oracle, detail))

        if obs[0] != "ok":
            if ev[0] == "reload":
                bad("C05", "cbf.reload_event", {"ev": ev, "obs": obs})
                return out or PRUNE
            for p in ("C08", "C14", "C19", "C05"):
                bad(p, "cbf.event_returns", {"ev": ev, "obs": obs})
            return out
        if ev[0] == "remove_absent":
            if obs[1] != 0:
                bad("C08", "cbf.remove_absent_says_zero", {"ev": ev, "returned": obs[1]})
            if call(bytes, pre.impl) != call(bytes, post.impl):
                bad("C08", "cbf.remove_absent_changes_nothing", {"ev": ev})
        if ev[0] == "reload" and "C14" in props and pre.impl.elements_added != post.impl.elements_added:
            bad("C14", "cbf.reload_keeps_count", {"before": pre.impl.elements_added, "after": post.impl.elements_added})
        return out

    def check_state(self, cfg, pre, ev, obs, post, props):
        out = []
        keys, hf, _ = self._alpha(cfg)
        f, m = post.impl, post.model

        def bad(prop, oracle, detail):
            if prop in props:
                out.append(Violation(prop, oracle, detail))

        if "C08" in props:
            for i, key in enumerate(keys):
                r = call(f.check, key)
                r2 = call(f.__contains__, key)
                if r[0] != "ok" or r[1] < m["true"][i]:
                    bad("C08", "cbf.count_not_below_true", {"key": repr(key), "true": m["true"][i], "check": r, "after": ev})
                    break
                if m["true"][i] > 0 and (r2[0] != "ok" or not r2[1]):
                    bad("C08", "cbf.added_key_in", {"key": repr(key), "in": r2})
            # removal undoes addition, from this (non-initial) state
            base = call(bytes, f)
            g = self.clone(post).impl
            for i, key in enumerate(keys):
                for n in tuple(cfg.get("amounts", (1, 2, 3)))[:3]:
                    a = call(g.add, key, n)
                    r = call(g.remove, key, n)
                    now = call(bytes, g)
                    if a[0] != "ok" or r[0] != "ok" or now != base:
                        bad("C08", "cbf.remove_undoes_add", {"key": repr(key), "n": n, "add": a[:2], "remove": r[:2],
                                                             "before": base[1].hex() if base[0] == "ok" else base,
                                                             "after": now[1].hex() if now[0] == "ok" else now})
                        g = self.clone(post).impl
        if "C14" in props:
            if f.elements_added != m["total"]:
                bad("C14", "cbf.elements_added_is_net_sum", {"expected": m["total"], "obs": f.elements_added, "after": ev})
            bloomlib.stats_oracle(f, True, None, bad, tag="cbf")
        if "C05" in props:
            probes = list(keys) + ["absent-1", b"absent-2"]
            bloomlib.bloom_roundtrip(f, CountingBloomFilter, hf, probes, bad, "cbf")
        if "C06" in props:
            from mc import cref

            cref.cbf_c06(cfg, post, keys, hf, bad)
        if "C19" in props:
            self._queries(cfg, post, keys, hf, bad)
        return out

    def _mk_other(self, cfg, keys, hf):
        other = CountingBloomFilter(cfg["n"], cfg["p"], hash_function=hf)
        other.add(keys[0], 2)
        return other

    def _ro(self, cfg, f, keys, hf, other):
        for k in list(keys) + ["absent-1", b"absent-2"]:
            call(f.check, k)
            call(f.__contains__, k)
            call(f.hashes, k)
        call(str, f)
        call(f.estimate_elements)
        call(f.current_false_positive_rate)
        call(f.export_size)
        call(bytes, f)
        call(f.export_hex)
        call(f.export, io.BytesIO())
        tmp = tempfile.mkdtemp(prefix="vcq")
        try:
            call(f.export, os.path.join(tmp, "q.cbm"))
            call(f.export_c_header, os.path.join(tmp, "q.h"))
        finally:
            shutil.rmtree(tmp, ignore_errors=True)
        call(f.union, other)
        call(f.intersection, other)
        call(f.jaccard_index, other)
        call(other.union, f)
        call(other.intersection, f)
        call(other.jaccard_index, f)

    def _queries(self, cfg, st, keys, hf, bad):
        pristine = self.clone(st)  # taken before any query of this state: the "untouched" twin
        f = st.impl
        before = bloomlib.bloom_observation(f, True)
        other = self._mk_other(cfg, keys, hf)
        ob = bloomlib.bloom_observation(other, True)
        self._ro(cfg, f, keys, hf, other)
        after = bloomlib.bloom_observation(f, True)
        if before != after:
            bad("C19", "cbf.queries_do_not_mutate", {"before": repr(before)[:300], "after": repr(after)[:300]})
        if bloomlib.bloom_observation(other, True) != ob:
            bad("C19", "cbf.set_ops_do_not_mutate_operand", {})
        def full_obs(x):
            g = x.impl
            return (bloomlib.bloom_observation(g, True), call(g.estimate_elements), call(g.current_false_positive_rate),
                    [call(g.check, k) for k in keys], call(str, g))

        if self.cur_depth <= cfg.get("twin_depth", 2):
            steps = 3 if self.cur_depth <= cfg.get("twin2_depth", 1) else 1

            def menu(c, x):
                return [e for e in self.events(c, x) if e[0] in ("add", "remove", "clear") and (len(e) < 3 or e[2] <= 2)]

            div = twin_divergence(self, cfg, pristine, lambda q: self._ro(cfg, q.impl, keys, hf, self._mk_other(cfg, keys, hf)), full_obs, steps, menu)
            if div is not None:
                bad("C19", "cbf.queried_twin_diverges_later", div)
        bb = call(bytes, f)
        if bb[0] == "ok":
            fresh_load = call(lambda: CountingBloomFilter.frombytes(bb[1], hash_function=hf))
            if fresh_load[0] == "ok":
                def answers(x):
                    return ([call(x.check, k) for k in list(keys) + ["absent-1"]], call(x.estimate_elements),
                            call(x.current_false_positive_rate), call(str, x))

                if answers(f) != answers(fresh_load[1]):
                    bad("C19", "cbf.answers_independent_of_earlier_queries", {"live": repr(answers(f))[:300],
                                                                               "fresh_load": repr(answers(fresh_load[1]))[:300]})
        g = self.clone(st).impl
        c = call(g.clear)
        fresh = CountingBloomFilter(cfg["n"], cfg["p"], hash_function=hf)
        if c[0] != "ok" or bloomlib.bloom_observation(g, True) != bloomlib.bloom_observation(fresh, True):
            bad("C19", "cbf.clear_equals_fresh", {"cleared": repr(bloomlib.bloom_observation(g, True))[:300]})
        else:
            g.add(keys[0], 2)
            fresh.add(keys[0], 2)
            if bloomlib.bloom_observation(g, True) != bloomlib.bloom_observation(fresh, True):
                bad("C19", "cbf.clear_equals_fresh_one_step_later", {})

    def check_initial(self, cfg, st, props):
        return self.check_state(cfg, st, ("init",), ("ok", None), st, props)


SYSTEM = CBFSystem()
