"""S-CMS: CountMinSketch / CountMeanSketch / CountMeanMinSketch / HeavyHitters / StreamThreshold
- C02 (min mode), C17 (tables), C05, C06, C14, C19."""
from __future__ import annotations

import io
import os
import shutil
import tempfile

from mc import keys as K
from mc.engine import PRUNE, State, System, Violation, call, canon, twin_divergence

from probables import CountMeanMinSketch, CountMeanSketch, CountMinSketch, HeavyHitters, StreamThreshold

CLASSES = {
    "min": CountMinSketch,
    "mean": CountMeanSketch,
    "meanmin": CountMeanMinSketch,
    "hh": HeavyHitters,
    "st": StreamThreshold,
}
QTYPE = {"min": "min", "mean": "mean", "meanmin": "mean-min", "hh": "min", "st": "min"}


def cms_table(w, d):
    """a: column 0 in every row; b: column i in row i (shares row 0 with a; equals a when w == 1);
    c: last column in every row, hashes >= 2^63; d: column 1 (or 0) in every row; bytes key e: like b shifted"""
    def vals(cols, big=False):
        return [cols[i % len(cols)] % w + w * ((K.BIG // w + 5 + i) if big else (i + 2)) for i in range(d)]

    return [
        ("a", vals([0])),
        ("b", vals(list(range(d)) or [0])),
        ("c", vals([w - 1], big=True)),
        ("d", vals([1])),
        (b"e", vals([i + 1 for i in range(d)] or [1])),
    ]


def _alphabet(cfg):
    w, d = cfg["width"], cfg["depth_"]
    if cfg["strat"] == "table":
        items = cms_table(w, d)
        return [k for k, _ in items][: cfg["nkeys"]], K.table_strategy(items)
    keys, hf, _ = K.alphabet(cfg["strat"], w, d, cfg.get("seed", 0))
    # HeavyHitters / StreamThreshold key their tables by the key object: str keys only there
    if cfg["cls"] in ("hh", "st"):
        keys = [k for k in keys if isinstance(k, str)]
    return keys[: cfg["nkeys"]], hf


def make(cfg, hf, **kw):
    cls = CLASSES[cfg["cls"]]
    extra = {}
    if cfg["cls"] == "hh":
        extra["num_hitters"] = cfg["hitters"]
    if cfg["cls"] == "st":
        extra["threshold"] = cfg["threshold"]
    if cfg.get("sizing"):
        conf, err = cfg["sizing"]
        return cls(confidence=conf, error_rate=err, hash_function=hf, **extra, **kw)
    s = cls(width=cfg["width"], depth=cfg["depth_"], hash_function=hf, **extra, **kw)
    if cfg.get("qt"):
        s.query_type = cfg["qt"]
    return s


def observation(f, kind):
    o = [call(bytes, f), f.elements_added, f.width, f.depth, f.query_type]
    if kind == "hh":
        o.append(list(f.heavy_hitters.items()))
        o.append(f.number_heavy_hitters)
    if kind == "st":
        o.append(list(f.meets_threshold.items()))
        o.append(f.threshold)
    return tuple(o)


class CMSSystem(System):
    name = "cms"
    serves = ("C02", "C17", "C05", "C06", "C14", "C19")
    rule = (
        'count-min family with width x depth in {1,2,3}^2 (plus confidence/error-rate sizings) x {table hash forcing '
        'full-row and single-row collisions, fnv-1a, md5}; keys a..e; events add(key,n) / remove(key,n) with n in '
        "{1,2} and removals only up to the key's true count (separate configurations with unrestricted removes reach negative "
        'counters; not used for C02), an add_alt with a hash list longer than the depth (refused: nothing may change), reload via '
        'bytes/file, clear; all sequences to the depth bound; oracle = dict of true counts (C02), dict of last returned '
        'estimates (C17); non-trivial = state in which two live keys share a counter.'
    )

    def configs(self, prop, tier, seed):
        cfgs = []
        quick = tier == "quick"
        if prop == "C17":
            shapes = ((1, 1), (2, 2), (3, 1)) if quick else ((1, 1), (2, 2), (3, 1), (2, 1), (3, 2))
            for (w, d) in shapes:
                for strat in ("table", "fnv"):
                    for h in (1, 2):
                        cfgs.append(dict(cls="hh", width=w, depth_=d, strat=strat, hitters=h, nkeys=4, depth=5 if quick else 6,
                                         amounts=[1, 2], seed=seed, cost=4))
                    if strat == "table":
                        # an amount of 0 is a legal add: the key is seen and tracked with whatever estimate comes back
                        cfgs.append(dict(cls="hh", width=w, depth_=d, strat=strat, hitters=2, nkeys=3, depth=5 if quick else 6,
                                         amounts=[0, 1], seed=seed, cost=4))
                    for t in (2, 3):
                        cfgs.append(dict(cls="st", width=w, depth_=d, strat=strat, threshold=t, nkeys=3, depth=5 if quick else 6,
                                         amounts=[1, 2], seed=seed, cost=4))
            # histories with a reload in the middle (custom and default hash)
            for strat in ("table", "md5"):
                cfgs.append(dict(cls="st", width=3, depth_=2, strat=strat, threshold=2, nkeys=2, depth=5 if quick else 6, amounts=[1, 2],
                                 c17_reload=True, seed=seed, cost=4))
                cfgs.append(dict(cls="hh", width=3, depth_=2, strat=strat, hitters=1, nkeys=3, depth=5 if quick else 6, amounts=[1, 2],
                                 c17_reload=True, seed=seed, cost=4))
            return cfgs
        shapes = [(w, d) for w in (1, 2, 3) for d in (1, 2, 3)]
        if prop == "C02":
            classes = ("min",)
            depth = 5 if quick else 7
        else:
            classes = ("min", "mean", "meanmin", "hh", "st")
            depth = 4 if quick else 5
            if prop in ("C05", "C06", "C19") and quick:
                depth = 3
        strats = ("table", "fnv", "md5") if quick else ("table", "fnv", "md5", "sha256", "dec_bytes", "dec_int")
        for cls in classes:
            for (w, d) in shapes:
                for strat in strats:
                    if cls != "min" and strat not in ("table", "fnv"):
                        continue
                    if cls == "meanmin" and w == 1:
                        continue  # mean-min divides by (width - 1): width 1 is outside its domain (also in the C version)
                    cfgs.append(dict(cls=cls, width=w, depth_=d, strat=strat, hitters=2, threshold=2, nkeys=3, depth=depth,
                                     amounts=[1, 2], seed=seed, cost=500))
                    if prop != "C02" and cls in ("min", "mean", "meanmin") and strat in ("table", "fnv") and d >= 2:
                        # removals beyond what was added are legal for a sketch: states with negative counters
                        cfgs.append(dict(cls=cls, width=w, depth_=d, strat=strat, hitters=2, threshold=2, nkeys=2, depth=depth,
                                         amounts=[1, 3], free_remove=True, seed=seed, cost=500))
            if cls in ("min", "hh") and prop in ("C05", "C19", "C14"):
                # more than 1024 counters, not a multiple of 1024
                cfgs.append(dict(cls=cls, width=300, depth_=4, strat="fnv", hitters=2, threshold=2, nkeys=3, depth=3, amounts=[1, 300],
                                 seed=seed, cost=2000))
            for sizing in ((0.5, 0.9), (0.9, 0.7)):
                f = CountMinSketch(confidence=sizing[0], error_rate=sizing[1])
                if cls == "meanmin" and f.width == 1:
                    continue
                cfgs.append(dict(cls=cls, width=f.width, depth_=f.depth, sizing=list(sizing), strat="fnv", hitters=2,
                                 threshold=2, nkeys=3, depth=depth, amounts=[1, 2], seed=seed, cost=f.width * f.depth))
        if prop == "C06":
            cfgs = [c for c in cfgs if c["strat"] == "fnv"]  # the C reference implements the documented FNV-1a rule
        if seed:
            r = seed % len(cfgs)
            cfgs = cfgs[r:] + cfgs[:r]
        return cfgs

    def initial(self, cfg):
        keys, hf = _alphabet(cfg)
        f = make(cfg, hf)
        return State(f, {"true": [0] * len(keys), "total": 0, "last": [None] * len(keys), "seen": [], "ever": []})

    def events(self, cfg, st):
        keys, _ = _alphabet(cfg)
        evs = []
        for i in range(len(keys)):
            for n in cfg["amounts"]:
                evs.append(("add", i, n))
        if cfg["cls"] != "hh":
            for i in range(len(keys)):
                for n in cfg["amounts"]:
                    if n <= st.model["true"][i] or cfg.get("free_remove"):
                        evs.append(("remove", i, n))
        if cfg["cls"] not in ("hh", "st"):
            evs += [("reload", "bytes"), ("reload", "file")]
            evs.append(("add_alt_long", 0, 1))  # hash list longer than the depth: refused, nothing may change
        elif cfg.get("c17_reload"):
            evs += [("reload", "bytes")]
        evs.append(("clear",))
        return evs

    def apply(self, cfg, st, ev, choices=None):
        keys, hf = _alphabet(cfg)
        f, m = st.impl, st.model
        kind = ev[0]
        if kind in ("add", "remove"):
            i, n = ev[1], ev[2]
            obs = call(f.add if kind == "add" else f.remove, keys[i], n)
            if obs[0] == "ok":
                sgn = 1 if kind == "add" else -1
                m["true"][i] += sgn * n
                m["total"] += sgn * n
                m["last"][i] = obs[1]
                if i not in m["seen"]:
                    m["seen"] = m["seen"] + [i]
                if i not in m["ever"]:
                    m["ever"] = sorted(m["ever"] + [i])
            return obs
        if kind == "add_alt_long":
            hs = hf(keys[ev[1]], f.depth + 2)
            before = call(bytes, f)
            obs = call(f.add_alt, hs, ev[2])
            if obs[0] == "ok":
                # accepted after all: then it is an addition like any other
                m["true"][ev[1]] += ev[2]
                m["total"] += ev[2]
                if ev[1] not in m["ever"]:
                    m["ever"] = sorted(m["ever"] + [ev[1]])
                return obs
            return ("refused", obs[1], call(bytes, f) == before)
        if kind == "clear":
            obs = call(f.clear)
            if obs[0] == "ok":
                m["true"] = [0] * len(keys)
                m["total"] = 0
                m["last"] = [None] * len(keys)
                m["seen"] = []
                m["ever"] = []
            return obs
        if kind == "reload":
            cls = CLASSES[cfg["cls"]]
            if ev[1] == "bytes":
                r = call(lambda: cls.frombytes(bytes(f), hash_function=hf, **self._load_kwargs(cfg)))
            else:
                tmp = tempfile.mkdtemp(prefix="vmr")
                try:
                    path = os.path.join(tmp, "r.cms")
                    r = call(lambda: (f.export(path), cls(filepath=path, hash_function=hf))[1])
                finally:
                    shutil.rmtree(tmp, ignore_errors=True)
            if r[0] == "ok":
                st.impl = r[1]
                if cfg["cls"] in ("hh", "st"):
                    # the tables are not part of the format: they start empty again
                    m["last"] = [None] * len(keys)
                    m["seen"] = []
                return ("ok", None)
            return r
        raise ValueError(ev)

    def key(self, cfg, st):
        m = dict(st.model)
        if cfg["cls"] != "hh":
            m["seen"] = sorted(m["seen"])  # insertion order only matters for the heavy-hitter table
        return (canon(st.impl), canon(m))

    def _cells(self, cfg, f, key):
        r = call(f.hashes, key)
        if r[0] != "ok":
            return None
        return [(h % f.width) + i * f.width for i, h in enumerate(r[1])]

    def nontrivial(self, cfg, pre, ev, obs, post):
        keys, hf = _alphabet(cfg)
        f = post.impl
        live = [i for i, t in enumerate(post.model["true"]) if t > 0]
        cells = [set(self._cells(cfg, f, keys[i]) or ()) for i in live]
        return any(cells[i] & cells[j] for i in range(len(cells)) for j in range(i + 1, len(cells)))

    def check_step(self, cfg, pre, ev, obs, post, props):
        out = []
        keys, hf = _alphabet(cfg)

        def bad(prop, oracle, detail):
            if prop in props:
                out.append(Violation(prop, oracle, detail))

        if obs[0] == "refused":
            if not obs[2]:
                for p in ("C02", "C14", "C19", "C05"):
                    bad(p, "cms.refused_add_changes_nothing", {"ev": ev, "error": obs[1]})
            return out
        if obs[0] != "ok":
            if ev[0] == "reload":
                bad("C05", "cms.reload_event", {"ev": ev, "obs": obs, "cls": cfg["cls"]})
                return out or PRUNE
            for p in ("C02", "C14", "C17", "C19", "C05"):
                bad(p, "cms.event_returns", {"ev": ev, "obs": obs})
            return out
        f = post.impl
        if ev[0] in ("add", "remove") and cfg["cls"] in ("min", "hh", "st"):
            now = call(f.check, keys[ev[1]])
            if now != ("ok", obs[1]):
                bad("C02", "cms.return_equals_check", {"ev": ev, "returned": obs[1], "check": now})
        if ev[0] == "reload":
            if "C14" in props and pre.impl.elements_added != f.elements_added:
                bad("C14", "cms.reload_keeps_count", {"before": pre.impl.elements_added, "after": f.elements_added})
            if type(f) is not CLASSES[cfg["cls"]] or f.query_type != QTYPE[cfg["cls"]]:
                bad("C05", "cms.loaded_class", {"channel": ev[1], "type": type(f).__name__, "query_type": f.query_type,
                                                "expected": CLASSES[cfg["cls"]].__name__})
        return out

    def check_state(self, cfg, pre, ev, obs, post, props):
        out = []
        keys, hf = _alphabet(cfg)
        f, m = post.impl, post.model
        kind = cfg["cls"]
        guards = []

        def bad(prop, oracle, detail, g=()):
            if prop in props:
                out.append(Violation(prop, oracle, detail, tuple(guards) + tuple(g)))

        if "C02" in props and kind == "min":
            total = f.elements_added
            if total != sum(m["true"]):
                bad("C02", "cms.total_is_sum_of_true", {"expected": sum(m["true"]), "obs": total, "after": ev})
            allcells = {i: set(self._cells(cfg, f, keys[i]) or ()) for i in range(len(keys))}
            for i, key in enumerate(keys):
                r = call(f.check, key)
                if r[0] != "ok":
                    bad("C02", "cms.check_returns", {"key": repr(key), "obs": r})
                    break
                if r[1] < m["true"][i]:
                    bad("C02", "cms.estimate_not_below_true", {"key": repr(key), "true": m["true"][i], "check": r[1], "after": ev})
                    break
                if r[1] > total:
                    bad("C02", "cms.estimate_not_above_total", {"key": repr(key), "total": total, "check": r[1], "after": ev})
                    break
                others = set()
                for j in m["ever"]:
                    if j != i:
                        others |= allcells[j]
                if not (allcells[i] & others) and r[1] != m["true"][i]:
                    bad("C02", "cms.isolated_key_exact", {"key": repr(key), "true": m["true"][i], "check": r[1], "after": ev})
                    break
                r2 = call(f.__contains__, key)
                if r2 != ("ok", r[1] != 0):
                    bad("C02", "cms.in_matches_check", {"key": repr(key), "check": r[1], "in": r2})
        if "C14" in props:
            if f.elements_added != m["total"]:
                bad("C14", "cms.elements_added_is_net_sum", {"expected": m["total"], "obs": f.elements_added, "after": ev, "cls": kind})
        if "C17" in props and kind == "hh":
            table = dict(f.heavy_hitters)
            last = {keys[i]: m["last"][i] for i in m["seen"]}
            want = min(f.number_heavy_hitters, len(last))
            if len(table) != want:
                bad("C17", "hh.table_size", {"expected": want, "table": repr(table), "last": repr(last), "after": ev})
            for k2, v in table.items():
                if k2 not in last or last[k2] != v:
                    bad("C17", "hh.tracked_value_is_last_estimate", {"key": repr(k2), "tracked": v, "last": last.get(k2), "after": ev})
            if table:
                lo = min(table.values())
                for k2, v in last.items():
                    if k2 not in table and v > lo:
                        bad("C17", "hh.no_untracked_above_smallest", {"key": repr(k2), "last": v, "smallest_tracked": lo,
                                                                       "table": repr(table), "after": ev})
        if "C17" in props and kind == "st":
            table = dict(f.meets_threshold)
            last = {keys[i]: m["last"][i] for i in m["seen"]}
            want = {k2: v for k2, v in last.items() if v >= f.threshold}
            if table != want:
                bad("C17", "st.table_is_keys_at_or_above_threshold", {"expected": repr(want), "table": repr(table), "after": ev})
            # consequence stated by the property: a key whose true count reaches the threshold is never missing
            for i in m["seen"]:
                if m["true"][i] >= f.threshold and keys[i] not in table:
                    bad("C17", "st.true_count_at_threshold_is_tracked", {"key": repr(keys[i]), "true": m["true"][i],
                                                                          "threshold": f.threshold, "table": repr(table), "after": ev})
        if "C05" in props:
            self._roundtrip(cfg, post, keys, hf, bad)
        if "C06" in props:
            from mc import cref

            cref.cms_c06(cfg, post, keys, hf, bad)
        if "C19" in props:
            self._queries(cfg, post, keys, hf, bad)
        return out

    def _load_kwargs(self, cfg):
        kw = {}
        if cfg["cls"] == "hh":
            kw["num_hitters"] = cfg["hitters"]
        if cfg["cls"] == "st":
            kw["threshold"] = cfg["threshold"]
        return kw

    def _roundtrip(self, cfg, st, keys, hf, bad):
        f = st.impl
        kind = cfg["cls"]
        cls = CLASSES[kind]
        b = call(bytes, f)
        if b[0] != "ok":
            bad("C05", "cms.export_bytes", {"obs": b})
            return
        blob = b[1]
        probes = list(keys) + ["absent-1", b"absent-2"]
        if kind in ("hh", "st"):
            probes = [p for p in probes if isinstance(p, str)]
        ref = ([call(f.check, k) for k in probes], f.width, f.depth, f.elements_added, f.query_type)
        kw = self._load_kwargs(cfg)
        tmp = tempfile.mkdtemp(prefix="vmc")
        try:
            path = os.path.join(tmp, "x.cms")
            e = call(f.export, path)
            loaders = [("frombytes", lambda: cls.frombytes(blob, hash_function=hf, **kw)),
                       ("frombytes(bytearray)", lambda: cls.frombytes(bytearray(blob), hash_function=hf, **kw)),
                       ("frombytes(memoryview)", lambda: cls.frombytes(memoryview(blob), hash_function=hf, **kw))]
            if e[0] != "ok":
                bad("C05", "cms.export_path", {"obs": e})
            else:
                with open(path, "rb") as fh:
                    fb = fh.read()
                if fb != blob:
                    bad("C05", "cms.channels_same_payload", {"channel": "path"})
                loaders.append(("filepath", lambda: cls(filepath=path, hash_function=hf, **kw)))
            bio = io.BytesIO()
            e2 = call(f.export, bio)
            if e2[0] != "ok" or bio.getvalue() != blob:
                bad("C05", "cms.channels_same_payload", {"channel": "fileobj", "obs": e2[0]})
            for name, ld in loaders:
                r = call(ld)
                if r[0] != "ok":
                    bad("C05", "cms.load", {"channel": name, "obs": r})
                    continue
                g = r[1]
                if type(g) is not cls:
                    bad("C05", "cms.loaded_class", {"channel": name, "type": type(g).__name__, "expected": cls.__name__})
                got = ([call(g.check, k) for k in probes], g.width, g.depth, g.elements_added, g.query_type)
                if got != ref:
                    bad("C05", "cms.loaded_equals_original", {"channel": name, "orig": repr(ref)[:300], "loaded": repr(got)[:300], "cls": kind})
                if call(bytes, g) != ("ok", blob):
                    bad("C05", "cms.reexport_identical", {"channel": name})
        finally:
            shutil.rmtree(tmp, ignore_errors=True)

    def _ro(self, cfg, f, keys, hf):
        kind = cfg["cls"]
        for k in list(keys) + ["absent-1"]:
            call(f.check, k)
            call(f.__contains__, k)
            call(f.hashes, k)
            call(f.hashes, k, 2)
        call(str, f)
        call(bytes, f)
        call(f.export, io.BytesIO())
        call(lambda: (f.width, f.depth, f.confidence, f.error_rate, f.elements_added, f.query_type))
        # non-receiver side of join
        if kind not in ("hh", "st"):
            recv = make(cfg, hf)
            call(recv.join, f)

    def _queries(self, cfg, st, keys, hf, bad):
        pristine = self.clone(st)  # taken before any query of this state: the "untouched" twin
        f = st.impl
        kind = cfg["cls"]
        before = observation(f, kind)
        self._ro(cfg, f, keys, hf)
        after = observation(f, kind)
        if before != after:
            bad("C19", "cms.queries_do_not_mutate", {"before": repr(before)[:300], "after": repr(after)[:300], "cls": kind})
        if self.cur_depth <= cfg.get("twin_depth", 2):
            div = twin_divergence(self, cfg, pristine, lambda q: self._ro(cfg, q.impl, keys, hf), lambda x: (observation(x.impl, kind), [call(x.impl.check, k) for k in keys]), 2 if self.cur_depth <= 1 else 1)
            if div is not None:
                bad("C19", "cms.queried_twin_diverges_one_step_later", div)
        bb = call(bytes, f)
        if bb[0] == "ok":
            fresh_load = call(lambda: CLASSES[kind].frombytes(bb[1], hash_function=hf, **self._load_kwargs(cfg)))
            if fresh_load[0] == "ok":
                def answers(x):
                    # (str() is left out: it prints the requested confidence / error rate, which a reload re-derives)
                    return [call(x.check, k) for k in list(keys) + ["absent-1"]] + [call(x.__contains__, keys[0]), x.elements_added]

                if answers(f) != answers(fresh_load[1]):
                    bad("C19", "cms.answers_independent_of_earlier_queries", {"live": repr(answers(f))[:300],
                                                                               "fresh_load": repr(answers(fresh_load[1]))[:300], "cls": kind})
        g = self.clone(st).impl
        c = call(g.clear)
        fresh = make(cfg, hf)
        if c[0] != "ok" or observation(g, kind) != observation(fresh, kind):
            bad("C19", "cms.clear_equals_fresh", {"cleared": repr(observation(g, kind))[:300], "fresh": repr(observation(fresh, kind))[:300]})
        else:
            # ... and stays indistinguishable over a short script (hidden state such as an eviction threshold)
            script = [(k, 1) for k in keys] + [(keys[-1], 2), (keys[0], 1), (keys[1 % len(keys)], 3)]
            for i, (k, n) in enumerate(script):
                a, b = call(g.add, k, n), call(fresh.add, k, n)
                if a != b or observation(g, kind) != observation(fresh, kind):
                    bad("C19", "cms.clear_equals_fresh_later", {"cls": kind, "script_step": i, "cleared": repr(observation(g, kind))[:200],
                                                                "fresh": repr(observation(fresh, kind))[:200]})
                    break

    def check_initial(self, cfg, st, props):
        return self.check_state(cfg, st, ("init",), ("ok", None), st, props)


SYSTEM = CMSSystem()
