"""S-CUCKOO: CuckooFilter / CountingCuckooFilter with every resolution of the internal
random draws (C03, C08 counting part, C14, C15, C05, C06, C19)."""
from __future__ import annotations

import io
import os
import shutil
import struct
import tempfile

from mc import choices
from mc.engine import PRUNE, State, System, Violation, call, canon, twin_divergence

choices.install()

from probables import CountingCuckooFilter, CuckooFilter  # noqa: E402
from probables.hashes import fnv_1a  # noqa: E402

choices.bind()


def _fps(cfg):
    """the fingerprint alphabet of a configuration"""
    if cfg.get("fps"):
        return list(cfg["fps"])
    cap, bs = cfg["capacity"], cfg["bucket"]
    n = cfg.get("nfp") or (2 * cap * bs + 2)
    if cfg["alt"] == "pair":
        # all fingerprints share bucket (1 % cap) for every capacity reachable by doubling twice
        step = cap * 8
        fps = [1 + step * i for i in range(n) if 1 + step * i < 256]
    else:
        fps = list(range(1, n + 1))
    if cfg.get("zero"):
        # fingerprint 0 is also the empty-slot marker of the export; 1 is left out so that an
        # implementation that stores such a key under fingerprint 1 creates no collision in the alphabet
        fps = [0] + [x + 1 for x in fps[:-1]]
    return fps


def _keys(cfg):
    """[(key, fingerprint)]: two spellings (one str, one bytes) for the first two fingerprints"""
    if cfg["alt"] == "fnv":
        # real strings through the default hash: fingerprint = low 8 bits of fnv-1a
        return [(f"{cfg.get('prefix', 'key')}{i}", fnv_1a(f"{cfg.get('prefix', 'key')}{i}") & 0xFF)
                for i in range(cfg.get("nfp", 8))]
    out = []
    for j, fp in enumerate(_fps(cfg)):
        out.append((f"k{fp}#0", fp))
        if j < 2:
            out.append((f"k{fp}#1".encode(), fp))
    return out


def make_hash(cfg):
    if cfg["alt"] == "fnv":
        return None
    alt = cfg["alt"]

    junk = 0
    if cfg.get("by_rate"):
        # keys carry hash bits ABOVE the fingerprint width the error rate asks for, so that a filter using another
        # width (e.g. after a reload that derived it from the wrong bucket size) computes other fingerprints
        import math

        nbits = math.ceil(math.log2(1.0 / cfg["by_rate"]) + math.log2(cfg["bucket"]) + 1)
        junk = 0b1011 << nbits
    if cfg.get("rate_from_object"):
        junk = 0b1011 << 8  # the object uses 1-byte fingerprints

    def table_hash(key, *args):
        if isinstance(key, bytes):
            key = key.decode()
        if key.startswith("k") and "#" in key:
            return int(key[1:].split("#")[0]) + junk
        if not key.isdigit():
            return fnv_1a(key)  # keys outside the alphabet (absent probes)
        fp = int(key)  # str(fingerprint): the value that selects the alternate bucket
        if alt == "other":
            return fp + 1
        if alt == "same":
            return fp
        return 0  # "pair": every fingerprint's alternate bucket is bucket 0

    return table_hash


def _cls(cfg):
    return CountingCuckooFilter if cfg["cls"] == "counting" else CuckooFilter


def _table(f, counting):
    if counting:
        return [[(b.finger, b.count) for b in bucket] for bucket in f.buckets]
    return [list(bucket) for bucket in f.buckets]


class CuckooSystem(System):
    name = "cuckoo"
    serves = ("C03", "C05", "C06", "C08", "C14", "C15", "C19")
    rule = (
        'CuckooFilter and CountingCuckooFilter with capacity 1..3 (4 thorough), bucket_size 1..2, max_swaps 1..2 (plus chains of 3-4 '
        'kicks; 3 thorough), auto_expand on/off, 1-byte fingerprints (plus filters sized by error rate), a table hash that dictates '
        'both candidate buckets of every fingerprint (alternate = other bucket / same bucket / one shared pair), keys whose raw '
        'fingerprint is 0, or the default FNV hash; events add(key)/remove(key)/expand()/reload (continue on the object loaded from '
        'an export) over 2*slots+2 fingerprints (two spellings, str and bytes, for two of them); EVERY resolution of '
        "random.choice/randint inside a call is a separate transition (stateless enumeration of the call's choice tree); BFS until "
        'the transition budget stops it before an unfinished level; non-trivial = state reached through an eviction, an expansion, '
        'a reload or a refused insert.'
    )

    def configs(self, prop, tier, seed):
        cfgs = []
        caps = (1, 2, 3) if tier == "quick" else (1, 2, 3, 4)
        swaps = (1, 2) if tier == "quick" else (1, 2, 3)
        classes = ("plain", "counting")
        if prop == "C08":
            classes = ("counting",)
        # transitions per configuration; BFS stops BEFORE a level it cannot finish, so "all sequences <= d" holds
        heavy = prop in ("C05", "C06", "C19")
        if tier == "quick":
            budget = (1500 if prop == "C05" else 2500) if heavy else (7000 if prop == "C14" else (14000 if prop == "C15" else 30000))
        else:
            budget = (12000 if prop == "C19" else 30000) if heavy else (40000 if prop in ("C15", "C14") else 150000)
        for cls in classes:
            for cap in caps:
                for bs in (1, 2):
                    for sw in swaps:
                        for auto in (False, True):
                            for alt in ("other", "same", "pair"):
                                slots = cap * bs
                                if tier == "quick" and slots > 4:
                                    continue
                                depth = slots + 4 if tier == "quick" else slots + 6
                                nfp = 2 * slots + 2 if slots <= 2 else slots + 3
                                cfgs.append(
                                    dict(cls=cls, capacity=cap, bucket=bs, swaps=sw, auto=auto, alt=alt, nfp=nfp,
                                         depth=depth, budget=budget, cost=budget)
                                )
            # longer eviction chains (a chain of >= 3 kicks can come back to a slot it already kicked)
            if tier == "quick":
                for cap, bs, auto, alt in ((2, 1, False, "other"), (2, 1, True, "other"), (3, 1, False, "other"), (2, 2, False, "other"),
                                           (1, 2, False, "same")):
                    for sw in (3, 4):
                        cfgs.append(dict(cls=cls, capacity=cap, bucket=bs, swaps=sw, auto=auto, alt=alt, nfp=2 * cap * bs + 2,
                                         depth=cap * bs + 4, budget=budget, cost=budget))
            # the expansion_rate and auto_expand setters flipped in mid-history (rate 1 makes expansions fail, rate 3 triples)
            for cap, bs, alt in ((1, 2, "other"), (2, 1, "pair"), (2, 2, "other")):
                cfgs.append(dict(cls=cls, capacity=cap, bucket=bs, swaps=2, auto=True, alt=alt, nfp=2 * cap * bs + 2, setters=True,
                                 depth=cap * bs + 4, budget=budget, cost=budget))
            # ---- scale-up ("corridor") configurations: ordinary larger shapes along a narrow menu (add the next key, remove the
            # oldest, reload; all random resolutions still enumerated)
            # wide buckets (slots 4, 5 are only reachable with bucket_size >= 5; 3 is not a power of two)
            for cap, bs, sw in ((2, 5, 2), (1, 6, 3), (2, 3, 3)):
                cfgs.append(dict(cls=cls, capacity=cap, bucket=bs, swaps=sw, auto=False, alt="other", nfp=cap * bs + 3, corridor=True,
                                 depth=cap * bs + 5, budget=budget, cost=budget))
            # tables longer than 4096 bytes / 1024 bins / a capacity that is a multiple of 256, default hash, a few keys
            for cap, bs in ((350, 3), (256, 1), (600, 2)):
                cfgs.append(dict(cls=cls, capacity=cap, bucket=bs, swaps=2, auto=True, alt="fnv", nfp=5, corridor=True, depth=6,
                                 prefix=f"b{seed}k", budget=min(budget, 4000), cost=budget))
            # a count above 65535 (one key added 65537 times in one event), then reloads / removes
            if cls == "counting" and prop in ("C03", "C05", "C08", "C14"):
                cfgs.append(dict(cls=cls, capacity=2, bucket=2, swaps=2, auto=True, alt="other", nfp=3, many=65537, depth=4,
                                 budget=min(budget, 3000), cost=budget))
            # 2-byte fingerprints whose zero bytes line up across neighbouring slots of one bucket
            cfgs.append(dict(cls=cls, capacity=1, bucket=3, swaps=1, auto=False, alt="same", finger=2,
                             fps=[0x0040, 0x3A00, 0x0100, 0x0001], depth=5, budget=budget, cost=budget))
            # fingerprint width given in bytes, bucket size not a power of two, reloaded with the error rate the object reports
            cfgs.append(dict(cls=cls, capacity=2, bucket=3, swaps=2, auto=True, alt="other", nfp=5, rate_from_object=True, depth=5,
                             budget=budget, cost=budget))
            # keys whose raw fingerprint is 0 (0 is the empty-slot marker of the export)
            for cap, bs, auto, alt in ((2, 2, True, "other"), (3, 1, True, "other"), (3, 2, False, "other"), (1, 2, True, "other"),
                                       (3, 1, True, "pair")):
                cfgs.append(dict(cls=cls, capacity=cap, bucket=bs, swaps=2, auto=auto, alt=alt, nfp=5, zero=True, depth=8,
                                 budget=budget, cost=budget))
            # sized by error rate (fingerprint width derived from the rate and the bucket size, re-supplied on load)
            for bs, er in ((1, 0.05), (2, 0.05), (3, 0.01)):
                cfgs.append(dict(cls=cls, capacity=2, bucket=bs, swaps=2, auto=True, alt="other", nfp=5, by_rate=er, depth=8,
                                 budget=budget, cost=budget))
            cfgs.append(dict(cls=cls, capacity=2, bucket=1, swaps=2, auto=True, alt="fnv", nfp=6, depth=8,
                             prefix=f"s{seed}k", budget=budget, cost=budget))
            cfgs.append(dict(cls=cls, capacity=3, bucket=2, swaps=3, auto=False, alt="fnv", nfp=8, depth=9,
                             prefix=f"t{seed}k", budget=budget, cost=budget))
        if seed:
            k = seed % len(cfgs)
            cfgs = cfgs[k:] + cfgs[:k]
        return cfgs

    def initial(self, cfg):
        if cfg.get("by_rate"):
            f = _cls(cfg).init_error_rate(
                cfg["by_rate"], capacity=cfg["capacity"], bucket_size=cfg["bucket"], max_swaps=cfg["swaps"],
                expansion_rate=2, auto_expand=cfg["auto"], hash_function=make_hash(cfg),
            )
            return State(f, {"fp": {}, "cap": cfg["capacity"]})
        f = _cls(cfg)(
            capacity=cfg["capacity"],
            bucket_size=cfg["bucket"],
            max_swaps=cfg["swaps"],
            expansion_rate=2,
            auto_expand=cfg["auto"],
            finger_size=cfg.get("finger", 1),
            hash_function=make_hash(cfg),
        )
        return State(f, {"fp": {}, "cap": cfg["capacity"]})

    def events(self, cfg, st):
        keys = _keys(cfg)
        if cfg.get("corridor"):
            live = [i for i, (_, fp) in enumerate(keys) if fp in st.model["fp"]]
            nxt = [i for i, (_, fp) in enumerate(keys) if fp not in st.model["fp"]]
            evs = [("add", nxt[0])] if nxt else []
            if live:
                evs += [("remove", live[0]), ("add", live[-1])]
            evs.append(("reload",))
            return evs
        evs = [("add", i) for i in range(len(keys))]
        if cfg.get("many"):
            evs.append(("add_many", 0, cfg["many"]))
        evs += [("remove", i) for i in range(len(keys))]
        if st.impl.capacity < cfg["capacity"] * 4 or (cfg.get("setters") and st.impl.capacity < cfg["capacity"] * 9):
            evs.append(("expand",))
        evs.append(("reload",))  # continue the history on the object obtained by loading an export
        if cfg.get("setters"):
            evs.append(("set_auto", not st.impl.auto_expand))
            for r in (1, 2, 3):
                if r != st.impl.expansion_rate:
                    evs.append(("set_rate", r))
        return evs

    # ---- transitions: all resolutions of the random draws
    def apply(self, cfg, st, ev, choices_=None):
        raise NotImplementedError

    def _exec(self, cfg, st, ev, src):
        f, m = st.impl, st.model
        keys = _keys(cfg)
        counting = cfg["cls"] == "counting"
        with choices.active(src):
            if ev[0] == "add":
                key, fp = keys[ev[1]]
                obs = call(f.add, key)
                if obs[0] == "ok":
                    if counting:
                        m["fp"][fp] = m["fp"].get(fp, 0) + 1
                    else:
                        m["fp"][fp] = 1
            elif ev[0] == "remove":
                key, fp = keys[ev[1]]
                obs = call(f.remove, key)
                if obs[0] == "ok" and obs[1]:
                    if fp in m["fp"]:
                        m["fp"][fp] -= 1
                        if m["fp"][fp] <= 0:
                            del m["fp"][fp]
            elif ev[0] == "add_many":
                key, fp = keys[ev[1]]

                def bulk():
                    for _ in range(ev[2]):
                        f.add(key)

                from mc.engine import timer_mode

                with timer_mode():  # 65537 adds exceed the line budget a replay runs under
                    obs = call(bulk)
                if obs[0] == "ok":
                    m["fp"][fp] = m["fp"].get(fp, 0) + ev[2]
            elif ev[0] == "set_auto":
                obs = call(setattr, f, "auto_expand", ev[1])
            elif ev[0] == "set_rate":
                obs = call(setattr, f, "expansion_rate", ev[1])
            elif ev[0] == "reload":
                er = cfg.get("by_rate") or (f.error_rate if cfg.get("rate_from_object") else None)
                hf = make_hash(cfg)
                cls = _cls(cfg)
                r = call(lambda: cls.frombytes(bytes(f), error_rate=er, hash_function=hf) if er else cls.frombytes(bytes(f), hash_function=hf))
                if r[0] == "ok":
                    g = r[1]
                    if not er:
                        g.fingerprint_size = cfg.get("finger", 1)
                    g.expansion_rate = f.expansion_rate
                    g.auto_expand = f.auto_expand
                    st.impl = f = g
                    obs = ("ok", None)
                else:
                    obs = r
            else:
                obs = call(f.expand)
        m["fp"] = dict(sorted(m["fp"].items()))
        m["cap"] = f.capacity
        return obs

    def steps(self, cfg, st, ev):
        def run(src):
            post = self.clone(st)
            obs = self._exec(cfg, post, ev, src)
            return obs, post

        for vals, (obs, post) in choices.resolutions(run):
            yield vals, obs, post

    def step_one(self, cfg, st, ev, choices_):
        post = self.clone(st)
        src = choices.ChoiceSource(choices_ or (), strict=False)
        obs = self._exec(cfg, post, ev, src)
        return obs, post

    def nontrivial(self, cfg, pre, ev, obs, post):
        if obs[0] != "ok" or pre.impl.capacity != post.impl.capacity:
            return True
        if ev[0] == "add":
            # an eviction moved at least one previously stored entry
            counting = cfg["cls"] == "counting"
            a, b = _table(pre.impl, counting), _table(post.impl, counting)
            moved = sum(1 for x, y in zip(a, b) if x != y)
            return moved >= 2
        return False

    # ---- oracles
    def check_step(self, cfg, pre, ev, obs, post, props):
        out = []
        keys = _keys(cfg)
        counting = cfg["cls"] == "counting"
        guards = []
        f = post.impl

        def bad(prop, oracle, detail, g=()):
            if prop in props:
                out.append(Violation(prop, oracle, detail, tuple(guards) + tuple(g)))

        if obs[0] == "timeout":
            bad("C03", "cuckoo.call_terminates", {"ev": ev})
            return out
        if obs[0] == "exc":
            if obs[1] != "CuckooFilterFullError":
                if ev[0] == "reload":
                    bad("C05", "cuckoo.reload_event", {"obs": obs})
                    return out or PRUNE
                for p in ("C03", "C15", "C08"):
                    bad(p, "cuckoo.unexpected_exception", {"ev": ev, "obs": obs})
                return out or PRUNE
            if ev[0] == "reload":
                bad("C05", "cuckoo.reload_event", {"obs": obs})
                return out or PRUNE
            if ev[0] != "add":
                return PRUNE  # expand() that raises is outside the claim
            # a refused insert: every key present before must still be present
            if not pre.impl.auto_expand:
                guards.append("cuckoo_insert_failed_no_expand")
            else:
                guards.append("cuckoo_expand_failed")
            for key, fp in keys:
                if fp in pre.model["fp"]:
                    r = call(f.check, key)
                    if r[0] != "ok" or not r[1]:
                        bad("C03", "cuckoo.refused_add_keeps_keys", {"lost_key": repr(key), "fingerprint": fp, "ev": ev,
                                                                       "obs": obs, "check": r})
                        if counting:
                            bad("C08", "cuckoo.refused_add_keeps_counts", {"key": repr(key), "expected": pre.model["fp"][fp],
                                                                            "check": r})
                        break
                    if counting and r[1] != pre.model["fp"][fp]:
                        bad("C08", "cuckoo.refused_add_keeps_counts", {"key": repr(key), "expected": pre.model["fp"][fp],
                                                                        "check": r})
                        break
            if out:
                return out
            # the table a refused add leaves behind must still be well-formed and consistently counted
            self._impl_invariants(cfg, f, props, bad, "after_refused_add")
            if out:
                return out
            if canon(pre.impl) != canon(post.impl):
                return PRUNE  # table changed but nothing lost: no further claim about this history
            return out
        if ev[0] == "remove":
            key, fp = keys[ev[1]]
            was = call(pre.impl.check, key)
            present = was[0] == "ok" and bool(was[1])
            if bool(obs[1]) != present:
                bad("C08", "cuckoo.remove_reports_presence", {"key": repr(key), "was_present": was, "returned": obs[1]})
                bad("C03", "cuckoo.remove_reports_presence", {"key": repr(key), "was_present": was, "returned": obs[1]})
            if not present and canon(pre.impl) != canon(post.impl):
                bad("C08", "cuckoo.remove_absent_changes_nothing", {"key": repr(key)})
        # capacity changes only by multiplication with the expansion rate
        c0, c1 = pre.impl.capacity, f.capacity
        if c1 != c0 and c1 != c0 * pre.impl.expansion_rate:
            bad("C15", "cuckoo.capacity_steps", {"before": c0, "after": c1})
        return out

    def _impl_invariants(self, cfg, f, props, bad, where):
        """oracles that need no reference model: C15 table invariants, C14 counter == what the table holds"""
        counting = cfg["cls"] == "counting"
        tab = None
        if "C15" in props:
            tab = self._invariants(cfg, f, bad, where)
        if "C14" in props:
            tab = tab or _table(f, counting)
            if counting:
                total = sum(c for b in tab for _, c in b)
                bins = sum(len(b) for b in tab)
                if f.elements_added != total:
                    bad("C14", "ccuckoo.elements_added_is_sum_of_counts", {"where": where, "elements_added": f.elements_added, "table_sum": total})
                if f.unique_elements != bins:
                    bad("C14", "ccuckoo.unique_elements_is_bins", {"where": where, "unique": f.unique_elements, "bins": bins})
            else:
                stored = sum(len(b) for b in tab)
                if f.elements_added != stored:
                    bad("C14", "cuckoo.elements_added_is_stored", {"where": where, "elements_added": f.elements_added, "stored": stored})

    def _invariants(self, cfg, f, bad, where):
        counting = cfg["cls"] == "counting"
        hf = make_hash(cfg) or fnv_1a
        cap = f.capacity
        tab = call(lambda: _table(f, counting))
        if tab[0] != "ok":
            bad("C15", "cuckoo.table_readable", {"where": where, "obs": tab})
            return None
        tab = tab[1]
        if len(tab) != cap:
            bad("C15", "cuckoo.bucket_count", {"where": where, "buckets": len(tab), "capacity": cap})
        seen = {}
        for bi, bucket in enumerate(tab):
            if len(bucket) > f.bucket_size:
                bad("C15", "cuckoo.bucket_overfull", {"where": where, "bucket": bi, "len": len(bucket), "bucket_size": f.bucket_size})
            for ent in bucket:
                fp = ent[0] if counting else ent
                if counting and ent[1] <= 0:
                    bad("C15", "cuckoo.zero_count_bin", {"where": where, "bucket": bi, "entry": ent})
                i1 = fp % cap
                i2 = hf(str(fp)) % cap
                if bi not in (i1, i2):
                    bad("C15", "cuckoo.fingerprint_in_candidate_bucket", {"where": where, "fp": fp, "bucket": bi, "candidates": [i1, i2], "capacity": cap})
                if fp in seen:
                    bad("C15", "cuckoo.fingerprint_unique", {"where": where, "fp": fp, "buckets": [seen[fp], bi]})
                seen[fp] = bi
        return tab

    def check_state(self, cfg, pre, ev, obs, post, props):
        out = []
        f, m = post.impl, post.model
        keys = _keys(cfg)
        counting = cfg["cls"] == "counting"
        guards = []
        if 0 in m["fp"]:
            guards.append("cuckoo_fingerprint_zero")
        if counting and pre.impl.capacity != f.capacity:
            guards.append("ccuckoo_after_expansion")

        def bad(prop, oracle, detail, g=()):
            if prop in props:
                out.append(Violation(prop, oracle, detail, tuple(guards) + tuple(g)))

        if "C03" in props or "C08" in props:
            for key, fp in keys:
                r = call(f.check, key)
                r2 = call(f.__contains__, key)
                want = m["fp"].get(fp, 0)
                if want:
                    if r[0] != "ok" or not r[1] or r2 != ("ok", True):
                        bad("C03", "cuckoo.added_key_present", {"key": repr(key), "fingerprint": fp, "check": r, "in": r2, "after": ev})
                        break
                if counting and (r[0] != "ok" or r[1] != want):
                    bad("C08", "ccuckoo.count_exact", {"key": repr(key), "fingerprint": fp, "expected": want, "check": r, "after": ev})
                    break
        tab = None
        if "C15" in props:
            tab = self._invariants(cfg, f, bad, "live")
        if "C14" in props:
            tab = tab or _table(f, counting)
            if counting:
                total = sum(c for b in tab for _, c in b)
                bins = sum(len(b) for b in tab)
                mt = sum(m["fp"].values())
                if f.elements_added != total or f.elements_added != mt:
                    bad("C14", "ccuckoo.elements_added_is_sum_of_counts", {"elements_added": f.elements_added, "table_sum": total, "model": mt, "after": ev})
                if f.unique_elements != bins or f.unique_elements != len(m["fp"]):
                    bad("C14", "ccuckoo.unique_elements_is_bins", {"unique": f.unique_elements, "bins": bins, "model": len(m["fp"]), "after": ev})
                lf = call(f.load_factor)
                if lf[0] != "ok" or abs(lf[1] - bins / (f.capacity * f.bucket_size)) > 1e-12:
                    bad("C14", "ccuckoo.load_factor", {"obs": lf})
            else:
                stored = sum(len(b) for b in tab)
                if f.elements_added != stored or f.elements_added != len(m["fp"]):
                    bad("C14", "cuckoo.elements_added_is_stored", {"elements_added": f.elements_added, "stored": stored, "model": len(m["fp"]), "after": ev})
                lf = call(f.load_factor)
                if lf[0] != "ok" or abs(lf[1] - stored / (f.capacity * f.bucket_size)) > 1e-12:
                    bad("C14", "cuckoo.load_factor", {"obs": lf})
        if "C05" in props or "C15" in props or "C06" in props:
            self._roundtrip(cfg, post, props, bad)
        if "C19" in props:
            self._queries(cfg, post, bad)
        return out

    # ---- C05 / C15-on-loaded / C06
    def _observe(self, f, counting, keys):
        return {
            "capacity": f.capacity,
            "bucket_size": f.bucket_size,
            "max_swaps": f.max_swaps,
            "elements_added": f.elements_added,
            "unique": f.unique_elements if counting else None,
            "table": _table(f, counting),
            "fingerprint_bits": f.fingerprint_size_bits,
            "checks": [call(f.check, k) for k, _ in keys] + [call(f.check, "absent-1"), call(f.check, b"absent-2")],
        }

    def _roundtrip(self, cfg, st, props, bad):
        f = st.impl
        counting = cfg["cls"] == "counting"
        cls = _cls(cfg)
        keys = _keys(cfg)
        hf = make_hash(cfg)
        b = call(bytes, f)
        if b[0] != "ok":
            bad("C05", "cuckoo.export_bytes", {"obs": b})
            return
        blob = b[1]
        ref = self._observe(f, counting, keys)
        loaders = []

        er = cfg.get("by_rate") or (f.error_rate if cfg.get("rate_from_object") else None)

        def fix(g):
            if not er:
                g.fingerprint_size = cfg.get("finger", 1)  # the fingerprint width is not stored: re-supplied the way the object was built
            g.expansion_rate = f.expansion_rate
            g.auto_expand = f.auto_expand
            return g

        if er:
            loaders.append(("frombytes", lambda: fix(cls.frombytes(blob, error_rate=er, hash_function=hf))))
        else:
            loaders.append(("frombytes", lambda: fix(cls.frombytes(blob, hash_function=hf))))
        if "C05" not in props:
            # C15 on loaded tables / C06 layout: the bytes channel suffices (C05 shows all channels carry the same payload)
            if "C15" in props:
                r = call(loaders[0][1])
                if r[0] != "ok":
                    bad("C15", "cuckoo.load", {"channel": "frombytes", "obs": r})
                else:
                    self._invariants(cfg, r[1], bad, "loaded:frombytes")
            if "C06" in props:
                self._layout(cfg, f, blob, bad)
            return
        tmp = tempfile.mkdtemp(prefix="vcu")
        try:
            path = os.path.join(tmp, "c.cko")
            e = call(f.export, path)
            if e[0] != "ok":
                bad("C05", "cuckoo.export_path", {"obs": e})
            else:
                with open(path, "rb") as fh:
                    fbytes = fh.read()
                if fbytes != blob:
                    bad("C05", "cuckoo.channels_same_payload", {"file": fbytes.hex(), "bytes": blob.hex()})
                if er:
                    loaders.append(("load_error_rate", lambda: fix(cls.load_error_rate(er, path, hash_function=hf))))
                else:
                    loaders.append(("filepath", lambda: fix(cls(filepath=path, hash_function=hf))))
                    loaders.append(("load_error_rate", lambda: fix(cls.load_error_rate(0.25, path, hash_function=hf))))
            bio = io.BytesIO()
            e = call(f.export, bio)
            if e[0] != "ok" or bio.getvalue() != blob:
                bad("C05", "cuckoo.channels_same_payload", {"fileobj": bio.getvalue().hex(), "bytes": blob.hex(), "obs": e[0]})
            for name, ld in loaders:
                r = call(ld)
                if r[0] != "ok":
                    bad("C05", "cuckoo.load", {"channel": name, "obs": r})
                    continue
                g = r[1]
                if "C05" in props:
                    got = self._observe(g, counting, keys)
                    if got != ref:
                        diff = {k: (ref[k], got[k]) for k in ref if ref[k] != got[k]}
                        bad("C05", "cuckoo.loaded_equals_original", {"channel": name, "diff": repr(diff)[:500]})
                    if type(g) is not cls:
                        bad("C05", "cuckoo.loaded_class", {"channel": name, "type": type(g).__name__})
                    rb = call(bytes, g)
                    if rb != ("ok", blob):
                        bad("C05", "cuckoo.reexport_identical", {"channel": name})
                if "C15" in props:
                    self._invariants(cfg, g, bad, f"loaded:{name}")
        finally:
            shutil.rmtree(tmp, ignore_errors=True)
        if "C06" in props:
            self._layout(cfg, f, blob, bad)

    def _layout(self, cfg, f, blob, bad):
        # documented layout: capacity x bucket_size 32-bit fingerprints (counting: fingerprint,count pairs),
        # empty slots zero, then bucket_size and max_swaps as two 32-bit unsigned ints
        counting = cfg["cls"] == "counting"
        want = bytearray()
        for bucket in _table(f, counting):
            ents = list(bucket) + ([(0, 0)] if counting else [0]) * (f.bucket_size - len(bucket))
            for ent in ents:
                want += struct.pack("=II", *ent) if counting else struct.pack("=I", ent)
        want += struct.pack("=II", f.bucket_size, f.max_swaps)
        if bytes(want) != blob:
            bad("C06", "cuckoo.layout", {"expected": bytes(want).hex(), "obs": blob.hex()})
        from mc import cref

        cref.cuckoo_c06(cfg, f, _table(f, counting), counting, _keys(cfg), blob, bad)

    def _queries(self, cfg, st, bad):
        pristine = self.clone(st)  # taken before any query of this state: the "untouched" twin
        f = st.impl
        counting = cfg["cls"] == "counting"
        keys = _keys(cfg)

        def vec():
            return (_table(f, counting), f.elements_added, f.capacity, f.bucket_size, f.max_swaps,
                    f.expansion_rate, f.auto_expand, f.fingerprint_size, f.error_rate,
                    f.unique_elements if counting else None, call(bytes, f))

        def ro(x):
            for k, _ in keys[:4]:
                call(x.check, k)
                call(x.__contains__, k)
            call(x.check, "never-added")
            call(x.__contains__, b"never-added")
            call(str, x)
            call(x.load_factor)
            call(bytes, x)
            call(x.export, io.BytesIO())
            for bucket in x.buckets:
                for ent in bucket:
                    call(str, ent)

        before = vec()
        ro(f)
        after = vec()
        if before != after:
            bad("C19", "cuckoo.queries_do_not_mutate", {"before": repr(before)[:300], "after": repr(after)[:300]})
        bb0 = call(bytes, f)
        if bb0[0] == "ok" and not cfg.get("by_rate"):
            fl = call(lambda: _cls(cfg).frombytes(bb0[1], hash_function=make_hash(cfg)))
            if fl[0] == "ok":
                fl[1].fingerprint_size = max(1, f.fingerprint_size)  # (bytes)
                probes = [k for k, _ in keys] + ["never-added"]
                a1 = [call(f.check, k) for k in probes] + [call(f.load_factor)]
                a2 = [call(fl[1].check, k) for k in probes] + [call(fl[1].load_factor)]
                if a1 != a2:
                    bad("C19", "cuckoo.answers_independent_of_earlier_queries", {"live": repr(a1)[:300], "fresh_load": repr(a2)[:300]})
        if self.cur_depth <= cfg.get("twin_depth", 2):
            div = twin_divergence(self, cfg, pristine, lambda q: ro(q.impl),
                                  lambda x: (_table(x.impl, counting), x.impl.elements_added, x.impl.capacity))
            if div is not None:
                bad("C19", "cuckoo.queried_twin_diverges_one_step_later", div)
            # ... and for a twin pair obtained by loading an export (loaded buckets are arrays)
            bb = call(bytes, f)
            if bb[0] == "ok":
                ld = call(lambda: _cls(cfg).frombytes(bb[1], hash_function=make_hash(cfg)))
                if ld[0] == "ok":
                    g0 = ld[1]
                    g0.fingerprint_size = max(1, f.fingerprint_size)
                    g0.auto_expand = f.auto_expand
                    lst = State(g0, self.clone(st).model)
                    div = twin_divergence(self, cfg, lst, lambda q: ro(q.impl),
                                          lambda x: (_table(x.impl, counting), x.impl.elements_added, x.impl.capacity))
                    if div is not None:
                        bad("C19", "cuckoo.queried_twin_diverges_one_step_later_loaded", div)
        # the same on a table obtained by loading an export (loaded buckets are arrays, not lists)
        b = call(bytes, f)
        if b[0] == "ok":
            g = call(lambda: _cls(cfg).frombytes(b[1], hash_function=make_hash(cfg)))
            if g[0] == "ok":
                g = g[1]

                def gvec():
                    # the table is read BEFORE the export that is part of the vector (an export may be the mutator)
                    return (_table(g, counting), g.elements_added, g.capacity, g.unique_elements if counting else None, call(bytes, g))

                b0 = gvec()
                call(bytes, g)
                call(g.export, io.BytesIO())
                call(str, g)
                for k, _ in keys[:3]:
                    call(g.check, k)
                if gvec() != b0:
                    bad("C19", "cuckoo.queries_do_not_mutate_loaded", {"before": repr(b0)[:300], "after": repr(gvec())[:300]})

    def check_initial(self, cfg, st, props):
        return self.check_state(cfg, st, ("init",), ("ok", None), st, props)


SYSTEM = CuckooSystem()
