"""S-DISK: BloomFilterOnDisk.

E3 crash-point enumeration (C11, level fault_enumeration): every library source line executed
while an add / close / export is in progress is a kill point; the backing file as a killed
process leaves it (read through a fresh descriptor: buffered-but-unflushed bytes are lost,
stores into the shared mapping survive) is recovered and checked.

History replay (the object holds an mmap and cannot be deep-copied): all operation sequences
up to a depth over add / close / reopen from several working directories / export / clear, for
files created by relative name, in a sub-directory, or by absolute path (C11 reopen part, C01,
C05, C14, C19).
"""
from __future__ import annotations

import itertools
import os
import shutil
import signal
import struct
import subprocess
import sys
import tempfile
import time

from mc.engine import HarnessError, Result, System, Violation

import probables
from probables import BloomFilter, BloomFilterOnDisk

PROB_DIR = os.path.dirname(os.path.abspath(probables.__file__))
FOOT = struct.Struct("=QQf")
KEYS = {"a": "alpha", "b": b"bravo-bytes", "c": "chärlie"}
GEOMS = ((10, 0.05), (3, 0.3))


def f32(x):
    return struct.unpack("=f", struct.pack("=f", x))[0]


def read_file(path):
    with open(path, "rb") as fh:
        return fh.read()


class Tracer:
    """delivers every 'line' event of frames whose code lives under probables/"""

    def __init__(self, on_line):
        self.on_line = on_line

    def _global(self, frame, event, arg):
        if frame.f_code.co_filename.startswith(PROB_DIR):
            return self._local
        return None

    def _local(self, frame, event, arg):
        if event == "line":
            self.on_line(frame)
        return self._local

    def __enter__(self):
        sys.settrace(self._global)

    def __exit__(self, *a):
        sys.settrace(None)


HF = [None]  # hash strategy of the history being replayed (None = the default FNV-1a)


def reference_bytes(n, p, adds, count=None):
    """export of an in-memory filter with the same history; an entry "!k" is an add of key k that raises
    part-way (short hash list): whatever bits it sets it also sets here, but it is not a completed addition"""
    f = BloomFilter(n, p, hash_function=HF[0])
    done = 0
    for k in adds:
        if k.startswith("!"):
            try:
                f.add_alt(f.hashes(KEYS[k[1:]], 1))
            except IndexError:
                pass
        else:
            f.add(KEYS[k])
            done += 1
    f.elements_added = done if count is None else count
    return bytes(f)


def key_bits(n, p, k):
    f = BloomFilter(n, p, hash_function=HF[0])
    return [h % f.number_bits for h in f.hashes(KEYS[k])]


def bits_set(blob, positions):
    return all(blob[pos // 8] & (1 << (pos % 8)) for pos in positions)


# ------------------------------------------------------------------ part A: crash points


def crash_histories(depth):
    ops = ["add:a", "add:b", "add:a", "close", "export"]
    seen = []
    for d in range(1, depth + 1):
        for h in itertools.product(range(len(ops)), repeat=d):
            names = [ops[i] for i in h]
            # nothing can follow close on the same object
            if "close" in names[:-1]:
                continue
            if names not in seen:
                seen.append(names)
    return seen


def run_crash_history(n, p, hist, on_point, kill_at=None, workdir=None):
    """Execute hist on a fresh on-disk filter; on_point(ctx, snapshot) at every library line event.
    ctx = (index of op in flight, completed adds).  Returns the list of op results."""
    tmp = workdir or tempfile.mkdtemp(prefix="vdk")
    path = os.path.join(tmp, "f.blm")
    other = os.path.join(tmp, "copy.blm")
    state = {"op": None, "completed": [], "events": 0}
    results = []
    try:
        f = BloomFilterOnDisk(path, n, p)

        def on_line(frame):
            state["events"] += 1
            if kill_at is not None:
                if state["events"] == kill_at:
                    os.kill(os.getpid(), signal.SIGKILL)
                return
            on_point((state["op"], tuple(state["completed"]), frame.f_code.co_name, frame.f_lineno, state["events"]), read_file(path))

        for i, op in enumerate(hist):
            state["op"] = i
            with Tracer(on_line):
                try:
                    if op.startswith("add:"):
                        f.add(KEYS[op[4:]])
                    elif op == "close":
                        f.close()
                    elif op == "export":
                        f.export(other)
                    results.append("ok")
                except Exception as exc:  # noqa: BLE001
                    results.append(f"{type(exc).__name__}: {exc}")
            if op.startswith("add:") and results[-1] == "ok":
                state["completed"].append(op[4:])
            state["op"] = None
            if kill_at is None:
                on_point((None, tuple(state["completed"]), "<between ops>", i, state["events"]), read_file(path))
        try:
            f.close()
        except Exception:  # noqa: BLE001
            pass
        final = read_file(path)
    finally:
        if workdir is None:
            shutil.rmtree(tmp, ignore_errors=True)
    return results, final, state["events"], tmp


def check_crash_point(n, p, hist, ctx, snap, bad, cache):
    """the C11 oracle on one snapshot"""
    op_i, completed, fn, line, evno = ctx
    inflight = hist[op_i] if op_i is not None else None
    ck = (snap, completed, inflight)
    if ck in cache:
        return False
    cache[ck] = True
    where = {"history": hist, "in_flight": inflight, "at": f"{fn}:{line}", "event": evno, "completed_adds": list(completed)}
    ref = BloomFilter(n, p)
    blen = ref.bloom_length
    if len(snap) != blen + FOOT.size:
        bad("C11", "disk.crash.length", {**where, "len": len(snap), "expected": blen + FOOT.size})
        return True
    est, count, fpr = FOOT.unpack(snap[-FOOT.size:])
    if est != n or fpr != f32(p):
        bad("C11", "disk.crash.footer_geometry", {**where, "est": est, "fpr": fpr})
    for k in set(completed):
        if not bits_set(snap, key_bits(n, p, k)):
            bad("C11", "disk.crash.completed_add_present", {**where, "key": k})
    want = len(completed)
    if count != want:
        ok_lag = (
            inflight is not None
            and inflight.startswith("add:")
            and count == want + 1
            and bits_set(snap, key_bits(n, p, inflight[4:]))
        )
        if not ok_lag:
            bad("C11", "disk.crash.count_is_completed", {**where, "recorded": count, "completed": want})
    # recovery: the snapshot loads, reports the keys, keeps count and bits over an open/close cycle
    tmp = tempfile.mkdtemp(prefix="vdr")
    try:
        path = os.path.join(tmp, "s.blm")
        with open(path, "wb") as fh:
            fh.write(snap)
        try:
            g = BloomFilter(filepath=path)
            for k in set(completed):
                if not g.check(KEYS[k]):
                    bad("C11", "disk.crash.recovered_reports_keys", {**where, "key": k, "loader": "BloomFilter"})
            if g.elements_added != count:
                bad("C11", "disk.crash.recovered_count", {**where, "loader": "BloomFilter", "obs": g.elements_added, "file": count})
            d = BloomFilterOnDisk(path)
            for k in set(completed):
                if not d.check(KEYS[k]):
                    bad("C11", "disk.crash.recovered_reports_keys", {**where, "key": k, "loader": "BloomFilterOnDisk"})
            if d.elements_added != count:
                bad("C11", "disk.reopen_keeps_count", {**where, "obs": d.elements_added, "file": count})
            d.close()
            if read_file(path) != snap:
                bad("C11", "disk.crash.reopen_close_keeps_file", {**where})
        except Exception as exc:  # noqa: BLE001
            bad("C11", "disk.crash.snapshot_loads", {**where, "error": f"{type(exc).__name__}: {exc}"})
    finally:
        shutil.rmtree(tmp, ignore_errors=True)
    return True


def explore_crash(n, p, depth, res, bad_factory):
    cache = {}
    points = 0
    distinct = 0
    mid = 0
    hists = crash_histories(depth)
    samples = []
    for hist in hists:
        bad = bad_factory({"part": "crash", "n": n, "p": p, "ops": hist})
        log = []

        def on_point(ctx, snap):
            log.append((ctx, snap))

        results, final, nev, _ = run_crash_history(n, p, hist, on_point)
        for r, op in zip(results, hist):
            if r != "ok":
                bad("C11", "disk.op_returns", {"history": hist, "op": op, "error": r})
        for ctx, snap in log:
            points += 1
            if check_crash_point(n, p, hist, ctx, snap, bad, cache):
                distinct += 1
                if ctx[0] is not None:
                    mid += 1
        # after close (explicit or the driver's final one) the file equals the in-memory export
        adds = [op[4:] for op in hist if op.startswith("add:")]
        if final != reference_bytes(n, p, adds):
            bad("C11", "disk.closed_file_equals_inmemory_export", {"history": hist, "file": final.hex(), "expected": reference_bytes(n, p, adds).hex()})
        if len(samples) < 3:
            samples.append({"history": hist, "line_events": nev})
    res.transitions += points
    res.states += distinct
    res.nontrivial_states += mid
    res.extra["crash_histories"] = res.extra.get("crash_histories", 0) + len(hists)
    res.extra["crash_points"] = res.extra.get("crash_points", 0) + points
    res.extra["distinct_snapshots_checked"] = res.extra.get("distinct_snapshots_checked", 0) + distinct
    res.samples += samples


# ---- validation of the snapshot claim against real SIGKILL

_CHILD = r"""
import sys
sys.path[:0] = {paths!r}
from mc.systems import disk
disk.run_crash_history({n}, {p}, {hist!r}, None, kill_at={k}, workdir={wd!r})
"""


def validate_sigkill(n, p, hist, res, bad_factory, stride=1):
    bad = bad_factory({"part": "sigkill", "n": n, "p": p, "ops": hist})
    log = []
    run_crash_history(n, p, hist, lambda ctx, snap: log.append((ctx, snap)))
    mids = [(ctx, snap) for ctx, snap in log if ctx[0] is not None]
    checked = 0
    for ctx, snap in mids[::stride]:
        k = ctx[4]
        wd = tempfile.mkdtemp(prefix="vdc")
        try:
            code = _CHILD.format(paths=[p_ for p_ in sys.path if p_], n=n, p=p, hist=hist, k=k, wd=wd)
            proc = subprocess.run([sys.executable, "-c", code], capture_output=True, env={**os.environ, "PYTHONHASHSEED": "0"})
            if proc.returncode != -signal.SIGKILL:
                raise HarnessError(f"SIGKILL child for event {k} exited {proc.returncode}: {proc.stderr[-300:]!r}")
            found = read_file(os.path.join(wd, "f.blm"))
        finally:
            shutil.rmtree(wd, ignore_errors=True)
        checked += 1
        if found != snap:
            raise HarnessError(
                f"in-process snapshot differs from the file a SIGKILLed process left: history={hist} event={k} "
                f"snapshot={snap.hex()} killed={found.hex()}"
            )
    res.extra["sigkill_children_compared"] = res.extra.get("sigkill_children_compared", 0) + checked


# ------------------------------------------------------------------ part B: history replay

OPS_B = ["add:a", "add:b", "add:c", "addfail", "close", "reopen:same", "reopen:chdir", "reopen:rel", "export:chdir", "export:self",
         "clear", "query"]


def replay_histories(depth, ops=None):
    out = []
    for d in range(1, depth + 1):
        for h in itertools.product(ops or OPS_B, repeat=d):
            opened = True
            ok = True
            for op in h:
                if op.startswith("reopen"):
                    if opened:
                        ok = False
                        break
                    opened = True
                elif op == "close":
                    if not opened:
                        ok = False
                        break
                    opened = False
                elif not opened:
                    ok = False
                    break
            if ok:
                out.append(list(h))
    return out


def run_replay_history(n, p, mode, hist, props, bad, strat="fnv"):
    """mode: how the file was named at creation: 'cwd' (bare name), 'sub' (relative path with a
    sub-directory), 'abs'.  Oracles are evaluated after the LAST op (prefixes are histories too)."""
    root = tempfile.mkdtemp(prefix="vdh")
    home = os.getcwd()
    from mc import keys as K

    HF[0] = None if strat == "fnv" else K.SHIPPED[strat]
    hf = HF[0]
    try:
        work = os.path.join(root, "work")
        away = os.path.join(root, "away")
        os.makedirs(os.path.join(work, "sub"))
        os.makedirs(away)
        os.chdir(work)
        name = {"cwd": "f.blm", "sub": os.path.join("sub", "f.blm"), "abs": os.path.join(work, "f.blm")}[mode]
        path = os.path.abspath(name)
        f = BloomFilterOnDisk(name, n, p, hash_function=hf)
        adds = []
        total_adds = 0
        where = {"mode": mode, "history": hist}
        last = len(hist) - 1
        for i, op in enumerate(hist):
            final = i == last
            try:
                if op.startswith("add:"):
                    f.add(KEYS[op[4:]])
                    adds.append(op[4:])
                elif op == "addfail":
                    # an add that raises part-way (hash list shorter than number_hashes) is not a completed addition
                    try:
                        f.add_alt(f.hashes(KEYS["c"], 1))
                        if f.number_hashes == 1:
                            adds.append("c")
                    except IndexError:
                        adds.append("!c")
                elif op == "close":
                    f.close()
                elif op == "clear":
                    f.clear()
                    adds = []
                elif op == "query":
                    before = (read_file(path), bytes(f), f.elements_added)
                    for k in KEYS.values():
                        f.check(k)
                        k in f
                        f.hashes(k)
                    f.check("absent")
                    str(f)
                    f.estimate_elements()
                    f.current_false_positive_rate()
                    f.export_size()
                    f.export_hex()
                    mem = BloomFilter(n, p, hash_function=hf)
                    mem.add("m")
                    u1, i1, j1 = mem.union(f), mem.intersection(f), mem.jaccard_index(f)
                    u2, i2, j2 = f.union(mem), f.intersection(mem), f.jaccard_index(mem)
                    if final:
                        # the same long-lived on-disk object is an operand again and again (also after clear())
                        disk_cells = list(read_file(path)[:-FOOT.size])
                        mem_cells = [mem.bloom[i] for i in range(mem.bloom_length)]
                        want_u = [a | b for a, b in zip(disk_cells, mem_cells)]
                        want_i = [a & b for a, b in zip(disk_cells, mem_cells)]
                        for nm, res, want, prop in (("union", u1, want_u, "C12"), ("union", u2, want_u, "C12"),
                                                    ("intersection", i1, want_i, "C13"), ("intersection", i2, want_i, "C13")):
                            got = None if res is None else [res.bloom[i] for i in range(res.bloom_length)]
                            if got != want:
                                bad(prop, f"disk.{nm}_with_ondisk_operand", {**where, "expected": want, "obs": got})
                        if j1 != j2:
                            bad("C13", "disk.jaccard_symmetric", {**where, "ab": j1, "ba": j2})
                    after = (read_file(path), bytes(f), f.elements_added)
                    if final and before != after:
                        bad("C19", "disk.queries_do_not_mutate", {**where})
                elif op.startswith("reopen"):
                    kind = op.split(":")[1]
                    if kind == "same":
                        os.chdir(work)
                        f = BloomFilterOnDisk(name, hash_function=hf)
                    elif kind == "chdir":
                        os.chdir(away)
                        f = BloomFilterOnDisk(path, hash_function=hf)
                    else:  # relative path from the parent directory
                        os.chdir(root)
                        f = BloomFilterOnDisk(os.path.relpath(path, root), hash_function=hf)
                    if final:
                        done = [k for k in adds if not k.startswith("!")]
                        for k in set(done):
                            if not f.check(KEYS[k]):
                                bad("C11", "disk.reopen_reports_keys", {**where, "key": k})
                                bad("C01", "disk.reopen_reports_keys", {**where, "key": k})
                        if f.elements_added != len(done):
                            bad("C11", "disk.reopen_keeps_count", {**where, "obs": f.elements_added, "expected": len(done)})
                            bad("C14", "disk.reopen_keeps_count", {**where, "obs": f.elements_added, "expected": len(done)})
                elif op == "export:self":
                    # exporting onto its own file is documented as "nothing to do": it must not damage the file
                    before = read_file(path)
                    f.export(path)
                    if final and (read_file(path)[:-FOOT.size] != before[:-FOOT.size] or len(read_file(path)) != len(before)):
                        bad("C11", "disk.export_onto_itself_keeps_file", {**where})
                        bad("C05", "disk.export_onto_itself_keeps_file", {**where})
                elif op == "export:chdir":
                    os.chdir(away)
                    dest = os.path.join(away, "exported.blm")
                    f.export(dest)
                    if final:
                        exp = read_file(dest)
                        if exp != read_file(path):
                            bad("C05", "disk.export_is_copy_of_file", {**where})
                        g = BloomFilter(filepath=dest, hash_function=hf)
                        if [g.check(k) for k in KEYS.values()] != [f.check(k) for k in KEYS.values()] or g.elements_added != f.elements_added:
                            bad("C05", "disk.export_loads_identically", {**where})
                        if bytes(g) != exp:
                            bad("C05", "disk.reexport_identical", {**where})
            except Exception as exc:  # noqa: BLE001
                oracle = "disk.reopen_any_cwd" if op.startswith("reopen") or op.startswith("export") else "disk.op_returns"
                for pr in ("C11", "C01", "C05", "C14", "C19"):
                    bad(pr, oracle, {**where, "op": op, "error": f"{type(exc).__name__}: {exc}"})
                return
            if not final:
                continue
            # oracles after the last op
            blob = read_file(path)
            est, count, fpr = FOOT.unpack(blob[-FOOT.size:])
            ref = reference_bytes(n, p, adds)
            closed = op == "close"
            all_adds, adds = adds, [k for k in adds if not k.startswith("!")]
            if count != len(adds):
                bad("C11", "disk.count_after_op", {**where, "recorded": count, "completed": len(adds)})
                bad("C14", "disk.count_after_op", {**where, "recorded": count, "completed": len(adds)})
            for k in set(adds):
                if not bits_set(blob, key_bits(n, p, k)):
                    bad("C11", "disk.file_contains_completed_adds", {**where, "key": k})
            if blob != ref:
                orc = "disk.closed_file_equals_inmemory_export" if closed else "disk.file_equals_inmemory_export"
                bad("C11", orc, {**where, "file": blob.hex(), "expected": ref.hex()})
                if op == "clear":
                    bad("C19", "disk.clear_equals_fresh", {**where, "file": blob.hex(), "fresh": ref.hex()})
            if "C06" in props and hf is None and not any(k.startswith("!") for k in all_adds):
                # the backing file is the C-compatible export at every op boundary: independent C reader / writer
                from mc import cref

                r = cref.ask("bloom-check", blob.hex(), *[cref.hx(k) for k in ("alpha", b"bravo-bytes", "absent-1")])
                mem = BloomFilter(n, p)
                for k in adds:
                    mem.add(KEYS[k])
                want = [int(mem.check(k)) for k in ("alpha", b"bravo-bytes", "absent-1")]
                if r[0] != "ok" or "MISMATCH" in r[1]:
                    bad("C06", "disk.c_reader_accepts_file", {**where, "reply": r})
                else:
                    head, ans = r[1].split(":")
                    if head.split()[2] != "1" and [int(x) for x in ans.split()] != want:
                        bad("C06", "disk.c_reader_agrees", {**where, "c": ans, "expected": want})
                cadds = [k for k in adds if k != "c"]  # "chärlie" is non-ASCII text: outside the C-compatible claim
                if len(cadds) == len(adds):
                    w = cref.ask("bloom-write", n, repr(p), len(adds), *[cref.hx(KEYS[k]) for k in adds])
                    if w[0] != "ok" or (w[1].split()[0] != "1" and bytes.fromhex(w[1].split()[1]) != blob):
                        bad("C06", "disk.c_writer_same_file", {**where, "c": w[1][:200] if w[0] == "ok" else w, "file": blob.hex()})
            if "C14" in props and not closed:
                # statistics of the on-disk filter are the standard functions of (set bits, counter)
                from mc import bloomlib

                bloomlib.stats_oracle(f, False, None, lambda pr, o, d: bad(pr, o, {**where, **d}), tag="disk")
            if not closed:
                if f.elements_added != len(adds):
                    bad("C14", "disk.elements_added_is_add_calls", {**where, "obs": f.elements_added, "expected": len(adds)})
                for k in set(adds):
                    if not f.check(KEYS[k]) or KEYS[k] not in f:
                        bad("C01", "disk.added_key_present", {**where, "key": k})
                if bytes(f) != blob:
                    bad("C05", "disk.bytes_equals_file", {**where})
                if op == "clear":
                    fresh = reference_bytes(n, p, [])
                    if bytes(f) != fresh or f.elements_added != 0:
                        bad("C19", "disk.clear_equals_fresh", {**where, "bytes": bytes(f).hex(), "fresh": fresh.hex()})
        try:
            f.close()
        except Exception:  # noqa: BLE001
            pass
    finally:
        HF[0] = None
        os.chdir(home)
        shutil.rmtree(root, ignore_errors=True)


class DiskSystem(System):
    name = "disk"
    serves = ("C11", "C01", "C05", "C06", "C12", "C13", "C14", "C19")
    rule = (
        'BloomFilterOnDisk, geometries (10,0.05) [63 bits: partial last byte] and (3,0.3). Part A: every history of '
        "<= 3 (thorough 4) operations over {add a, add b, add a again, close, export to another path}; every 'line' "
        'trace event of library code while an operation is in progress is a crash point; the backing file read '
        'through a fresh descriptor at that instant is what a killed process leaves (validated against real SIGKILLed '
        'children); each distinct (snapshot, completed adds, in-flight op) is recovered and checked. Part B: every '
        'valid history of <= 4 (thorough 5) operations over {add a/b/c, an add that raises part-way, close, reopen from the same '
        'directory / by absolute path from another directory / by relative path from the parent directory, export from another '
        'directory, clear, query batch incl. checked set operations} for files created by bare name, in a sub-directory, by '
        'absolute path, plus one configuration with a supplied md5 strategy; oracles after the last operation. non-trivial = '
        'snapshot taken strictly inside an operation / history containing a reopen.'
    )

    def configs(self, prop, tier, seed):
        quick = tier == "quick"
        cfgs = []
        if prop in ("C12", "C13"):
            # a long-lived on-disk operand: histories over a reduced menu, one depth deeper
            for n, p in GEOMS:
                cfgs.append(dict(part="replay", n=n, p=p, mode="abs", strat="fnv", depth=5 if quick else 6,
                                 ops=["add:a", "add:b", "clear", "query", "close", "reopen:same"], cost=15000))
            return cfgs
        for n, p in GEOMS:
            if prop == "C11":
                cfgs.append(dict(part="crash", n=n, p=p, depth=3 if quick else 4, cost=20000 if quick else 200000))
            for mode in ("cwd", "sub", "abs"):
                cfgs.append(dict(part="replay", n=n, p=p, mode=mode, strat="fnv", depth=(4 if prop == "C11" else 3) if quick else 5,
                                 cost=15000))
            # a supplied (non-default) hash strategy has to be re-supplied on reopen and must then be honoured
            cfgs.append(dict(part="replay", n=n, p=p, mode="sub", strat="md5", depth=(4 if prop == "C11" else 3) if quick else 5,
                             cost=15000))
        # scale-up: bit arrays of 240 bytes and ~6 kB (longer than a 64-byte line / a 4096-byte page), a reduced menu
        for n, p in ((200, 0.01), (5000, 0.01)):
            if prop == "C11" and n == 200:
                cfgs.append(dict(part="crash", n=n, p=p, depth=2, cost=20000))
            cfgs.append(dict(part="replay", n=n, p=p, mode="sub", strat="fnv", depth=(3 if n > 1000 else 4) if quick else 5,
                             ops=["add:a", "add:b", "add:c", "close", "reopen:chdir", "clear", "export:chdir", "query"], cost=15000))
        if prop == "C11":
            for h in ([["add:a", "add:b", "close"]] if quick else [["add:a", "add:b", "close"], ["add:a", "export", "add:b"], ["add:b", "add:b", "close"]]):
                cfgs.append(dict(part="sigkill", n=10, p=0.05, ops=h, stride=2 if quick else 1, cost=20000))
        return cfgs

    def run(self, cfg, props, tier):
        t0 = time.time()
        res = Result(self.name, cfg)
        props = set(props)

        def bad_factory(hist_id):
            def bad(prop, oracle, detail, guards=()):
                if prop in props and len(res.violations) < 20:
                    res.violations.append((Violation(prop, oracle, detail, guards), hist_id))

            return bad

        if cfg["part"] == "crash":
            explore_crash(cfg["n"], cfg["p"], cfg["depth"], res, bad_factory)
        elif cfg["part"] == "sigkill":
            validate_sigkill(cfg["n"], cfg["p"], cfg["ops"], res, bad_factory, cfg["stride"])
            res.states += 1
            res.transitions += res.extra.get("sigkill_children_compared", 0)
        else:
            hists = replay_histories(cfg["depth"], cfg.get("ops"))
            for h in hists:
                run_replay_history(cfg["n"], cfg["p"], cfg["mode"], h, props,
                                   bad_factory({"part": "replay", "n": cfg["n"], "p": cfg["p"], "mode": cfg["mode"], "ops": h,
                                                "strat": cfg.get("strat", "fnv")}), cfg.get("strat", "fnv"))
                res.transitions += len(h)
            res.states = len(hists)
            res.nontrivial_states = sum(1 for h in hists if any(o.startswith("reopen") for o in h))
            res.samples = [{"history": hists[i]} for i in (0, len(hists) // 2, len(hists) - 1)]
            res.extra["replayed_histories"] = len(hists)
        res.max_depth = cfg.get("depth", len(cfg.get("ops", [])))
        res.closure = False
        res.extra["depth_completed"] = res.max_depth
        res.wall = time.time() - t0
        return res

    def replay(self, cfg, history, props):
        """re-execute one recorded history (history = the hist_id dict stored with the violation)"""
        res = Result(self.name, cfg)
        props = set(props)
        out = []

        def bad(prop, oracle, detail, guards=()):
            if prop in props:
                out.append((Violation(prop, oracle, detail, guards), history))

        h = history
        if h["part"] == "replay":
            run_replay_history(h["n"], h["p"], h["mode"], h["ops"], props, bad, h.get("strat", "fnv"))
        elif h["part"] == "crash":
            log = []
            results, final, _, _ = run_crash_history(h["n"], h["p"], h["ops"], lambda ctx, snap: log.append((ctx, snap)))
            cache = {}
            for r, op in zip(results, h["ops"]):
                if r != "ok":
                    bad("C11", "disk.op_returns", {"op": op, "error": r})
            for ctx, snap in log:
                check_crash_point(h["n"], h["p"], h["ops"], ctx, snap, bad, cache)
            adds = [op[4:] for op in h["ops"] if op.startswith("add:")]
            if final != reference_bytes(h["n"], h["p"], adds):
                bad("C11", "disk.closed_file_equals_inmemory_export", {"history": h["ops"]})
        return out


SYSTEM = DiskSystem()
