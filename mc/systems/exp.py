"""S-EXP: ExpandingBloomFilter / RotatingBloomFilter - C09, C10, C01, C05, C06, C14, C19."""
from __future__ import annotations

import io
import math
import os
import shutil
import struct
import tempfile

from mc import keys as K
from mc.engine import PRUNE, State, System, Violation, call, canon, twin_divergence

from probables import BloomFilter, ExpandingBloomFilter, RotatingBloomFilter

FOOTER = struct.Struct("=QQQf")


def pool_key(cfg, i):
    base = f"{cfg.get('prefix', 'x')}{i}"
    if i % 5 == 3:
        return base.encode()
    if i % 5 == 4:
        return base + ("~" if cfg.get("ascii") else "é")
    return base


def parse_export(blob, bloom_length):
    """(per-filter counts, per-filter cell bytes, (size, est, added, fpr)) from the documented stream layout"""
    size, est, added, fpr = FOOTER.unpack(blob[-FOOTER.size:])
    counts, cells = [], []
    off = 0
    for _ in range(size):
        counts.append(struct.unpack("=Q", blob[off:off + 8])[0])
        cells.append(blob[off + 8:off + 8 + bloom_length])
        off += 8 + bloom_length
    if off != len(blob) - FOOTER.size:
        raise ValueError(f"stream length mismatch: {off} + footer != {len(blob)}")
    return counts, cells, (size, est, added, fpr)


class ExpSystem(System):
    name = "exp"
    serves = ("C09", "C10", "C01", "C05", "C06", "C14", "C19")
    rule = (
        "ExpandingBloomFilter (est_elements E=1..3, thorough 4) and RotatingBloomFilter (E x max_queue_size in "
        "{1,2,3}^2) with rates {0.05, 0.3} and fnv-1a / md5; events add(next unused key) / add(oldest inserted key) / "
        "add(newest inserted key) / add(newest, force=True) / push / pop (rotating) / reload via bytes or file; all "
        "sequences to the depth bound (3E+3 resp. QE+E+3, capped by a transition budget that stops before an "
        "unfinished level); model = per-sub-filter insertion counts + effective-insertion clock; an add is effective "
        "iff forced or the filter reported the key absent just before (observed on the implementation); per-filter "
        "counts are read from the exported stream; non-trivial = state reached through a growth / rotation / reload."
    )

    def configs(self, prop, tier, seed):
        cfgs = []
        quick = tier == "quick"
        heavy = prop in ("C05", "C06", "C19")
        budget = (3500 if heavy else (25000 if prop in ("C01", "C14") else 40000)) if quick else ((20000 if prop == "C19" else 60000) if heavy else (100000 if prop in ("C14", "C01") else 300000))
        es = (1, 2, 3) if quick else (1, 2, 3, 4)
        rates = (0.05, 0.3)
        strats = ("fnv", "md5")
        if prop in ("C09", "C01", "C05", "C06", "C14", "C19"):
            for e in es:
                for p in rates:
                    for s in strats:
                        cfgs.append(dict(cls="exp", E=e, p=p, strat=s, depth=3 * e + 3, budget=budget, prefix=f"x{seed}_",
                                         cost=budget * 4))
        if prop in ("C10", "C05", "C06", "C14", "C19"):
            for e in es[:3]:
                for q in (1, 2, 3):
                    for p in rates:
                        for s in strats[: 1 if quick and prop != "C10" else 2]:
                            cfgs.append(dict(cls="rot", E=e, Q=q, p=p, strat=s, depth=q * e + e + 3, budget=budget,
                                             prefix=f"r{seed}_", cost=budget * 4))
        if prop == "C06":
            cfgs = [dict(c, ascii=True) for c in cfgs if c["strat"] == "fnv"]
        if seed:
            r = seed % len(cfgs)
            cfgs = cfgs[r:] + cfgs[:r]
        return cfgs

    def _hf(self, cfg):
        return K.SHIPPED[cfg["strat"]]

    def _new(self, cfg):
        hf = self._hf(cfg)
        if cfg["cls"] == "exp":
            return ExpandingBloomFilter(est_elements=cfg["E"], false_positive_rate=cfg["p"], hash_function=hf)
        return RotatingBloomFilter(est_elements=cfg["E"], false_positive_rate=cfg["p"], max_queue_size=cfg["Q"], hash_function=hf)

    def _blen(self, cfg):
        return BloomFilter(cfg["E"], cfg["p"]).bloom_length

    _nh = {}

    def _nhashes(self, cfg):
        k = (cfg["E"], cfg["p"])
        if k not in self._nh:
            self._nh[k] = BloomFilter(cfg["E"], cfg["p"]).number_hashes
        return self._nh[k]

    def initial(self, cfg):
        f = self._new(cfg)
        model = {
            "adds": 0,  # add calls
            "eff": 0,  # effective insertions
            "counts": [0],  # per-sub-filter insertion counts, oldest first
            "next": 0,  # next unused pool key
            "ins": [],  # [key index, eff clock right after its insertion, explicit push/pop epoch] for really inserted keys
            "epoch": 0,  # number of explicit push/pop calls
            "pushed": False,
            "allkeys": [],  # every key index ever passed to add
            "members": [[]],  # per sub-filter: key indices really inserted there (for the C writer)
        }
        return State(f, model)

    def events(self, cfg, st):
        m = st.model
        evs = [("add_fresh",)]
        if m["ins"]:
            evs.append(("add_dup_oldest",))
            if len(m["ins"]) > 1:
                evs.append(("add_dup_newest",))
            evs.append(("add_forced",))
        evs.append(("push",))
        if cfg["cls"] == "rot":
            evs.append(("pop",))
        evs.append(("reload", "bytes"))
        evs.append(("reload", "file"))
        return evs

    def _insert_model(self, cfg, m, ki):
        """an effective insertion on the model's per-filter counts"""
        e = cfg["E"]
        c = m["counts"]
        mem = m["members"]
        if cfg["cls"] == "exp":
            if c[-1] >= e:
                c.append(0)
                mem.append([])
        else:
            if c[-1] == e:
                if len(c) >= cfg["Q"]:
                    c.pop(0)
                    mem.pop(0)
                c.append(0)
                mem.append([])
        c[-1] += 1
        mem[-1] = mem[-1] + [ki]
        m["eff"] += 1

    def apply(self, cfg, st, ev, choices=None):
        f, m = st.impl, st.model
        kind = ev[0]
        hf = self._hf(cfg)
        if kind.startswith("add"):
            force = kind == "add_forced"
            if kind == "add_fresh":
                ki = m["next"]
                m["next"] += 1
            elif kind == "add_dup_oldest":
                ki = m["ins"][0][0]
            else:
                ki = m["ins"][-1][0]
            key = pool_key(cfg, ki)
            was = call(f.check, key)
            obs = call(f.add, key, force) if force else call(f.add, key)
            if obs[0] == "ok":
                m["adds"] += 1
                if ki not in m["allkeys"]:
                    m["allkeys"] = m["allkeys"] + [ki]
                effective = force or was == ("ok", False)
                if effective:
                    self._insert_model(cfg, m, ki)
                    if was == ("ok", False):
                        m["ins"] = m["ins"] + [[ki, m["eff"], m["epoch"]]]
                return ("ok", {"key": ki, "was_present": was[1] if was[0] == "ok" else None, "effective": effective})
            return obs
        if kind == "push":
            obs = call(f.push)
            if obs[0] == "ok":
                c = m["counts"]
                if cfg["cls"] == "rot" and len(c) >= cfg["Q"]:
                    c.pop(0)
                    m["members"].pop(0)
                c.append(0)
                m["members"].append([])
                m["epoch"] += 1
                m["pushed"] = True
            return obs
        if kind == "pop":
            obs = call(f.pop)
            if obs[0] == "ok":
                if len(m["counts"]) > 1:
                    m["counts"].pop(0)
                    m["members"].pop(0)
                m["epoch"] += 1
            return obs
        if kind == "reload":
            cls = type(f)
            kw = {"max_queue_size": cfg["Q"]} if cfg["cls"] == "rot" else {}
            if ev[1] == "bytes":
                r = call(lambda: cls.frombytes(bytes(f), hash_function=hf, **kw))
            else:
                tmp = tempfile.mkdtemp(prefix="ver")
                try:
                    path = os.path.join(tmp, "r.ebf")
                    r = call(lambda: (f.export(path), cls(filepath=path, hash_function=hf, **kw))[1])
                finally:
                    shutil.rmtree(tmp, ignore_errors=True)
            if r[0] == "ok":
                st.impl = r[1]
                return ("ok", None)
            return r
        raise ValueError(ev)

    def key(self, cfg, st):
        # the expanding filter remembers the rate as given, a loaded one as float32: same state
        return (canon(st.impl), canon(st.model))

    def nontrivial(self, cfg, pre, ev, obs, post):
        return len(pre.model["counts"]) != len(post.model["counts"]) or ev[0] in ("reload", "pop") or (
            cfg["cls"] == "rot" and pre.model["counts"][:1] != post.model["counts"][:1] and len(post.model["counts"]) == cfg.get("Q")
        )

    # ---- oracles
    def check_step(self, cfg, pre, ev, obs, post, props):
        out = []

        def bad(prop, oracle, detail):
            if prop in props:
                out.append(Violation(prop, oracle, detail))

        kind = ev[0]
        if obs[0] != "ok":
            if kind == "reload":
                bad("C05", "exp.reload_event", {"ev": ev, "obs": obs})
                return out or PRUNE
            if kind == "pop" and obs[0] == "exc" and obs[1] == "RotatingBloomFilterError" and len(pre.model["counts"]) == 1:
                # refused: nothing may change
                if call(bytes, pre.impl) != call(bytes, post.impl):
                    bad("C10", "rot.refused_pop_changes_nothing", {})
                return out
            for p in ("C09", "C10", "C01", "C14", "C19", "C05"):
                bad(p, "exp.event_returns", {"ev": ev, "obs": obs})
            return out
        if kind == "pop" and len(pre.model["counts"]) == 1:
            bad("C10", "rot.pop_on_single_filter_refused", {"obs": obs})
        if kind.startswith("add") and "C09" in props and not obs[1]["effective"]:
            # an add of a key already reported present (not forced) inserts nothing
            a, b = call(bytes, pre.impl), call(bytes, post.impl)
            if a[0] == "ok" and b[0] == "ok" and a[1][:-FOOTER.size] != b[1][:-FOOTER.size]:
                bad("C09", "exp.noneffective_add_inserts_nothing", {"ev": ev, "obs": obs[1]})
        if kind == "reload" and "C14" in props and pre.impl.elements_added != post.impl.elements_added:
            bad("C14", "exp.reload_keeps_count", {"before": pre.impl.elements_added, "after": post.impl.elements_added})
        return out

    def check_state(self, cfg, pre, ev, obs, post, props):
        out = []
        f, m = post.impl, post.model
        e = cfg["E"]
        rot = cfg["cls"] == "rot"

        def bad(prop, oracle, detail):
            if prop in props:
                out.append(Violation(prop, oracle, detail))

        need_counts = props & {"C09", "C10"}
        counts = None
        if need_counts:
            b = call(bytes, f)
            if b[0] != "ok":
                for p in need_counts:
                    bad(p, "exp.export_returns", {"obs": b})
            else:
                try:
                    counts, _, foot = parse_export(b[1], self._blen(cfg))
                except (ValueError, struct.error) as exc:
                    for p in need_counts:
                        bad(p, "exp.export_parses", {"error": str(exc)})
        if counts is not None and not rot and "C09" in props:
            if any(c > e for c in counts):
                bad("C09", "exp.no_filter_over_est_elements", {"counts": counts, "est_elements": e, "after": ev})
            if counts != m["counts"]:
                bad("C09", "exp.per_filter_counts", {"expected": m["counts"], "obs": counts, "after": ev})
            if f.expansions != len(counts) - 1:
                bad("C09", "exp.expansions_is_filters_minus_one", {"expansions": f.expansions, "filters": len(counts)})
            if not m["pushed"]:
                want = max(0, math.ceil(m["eff"] / e) - 1)
                if f.expansions != want:
                    bad("C09", "exp.grows_exactly_when_full", {"effective_insertions": m["eff"], "est_elements": e,
                                                                "expected_expansions": want, "obs": f.expansions, "after": ev})
            if f.elements_added != m["adds"]:
                bad("C09", "exp.elements_added_counts_every_add", {"expected": m["adds"], "obs": f.elements_added})
        if counts is not None and rot and "C10" in props:
            q = cfg["Q"]
            if not 1 <= f.current_queue_size <= q or len(counts) != f.current_queue_size:
                bad("C10", "rot.queue_size_bounded", {"size": f.current_queue_size, "max": q, "stream_filters": len(counts), "after": ev})
            if any(c > e for c in counts):
                bad("C10", "rot.no_filter_over_est_elements", {"counts": counts, "est_elements": e, "after": ev})
            if counts != m["counts"]:
                bad("C10", "rot.per_filter_counts", {"expected": m["counts"], "obs": counts, "after": ev})
            if f.max_queue_size != q:
                bad("C10", "rot.max_queue_size", {"obs": f.max_queue_size})
        if rot and "C10" in props:
            q = cfg["Q"]
            for ki, at, epoch in m["ins"]:
                if epoch == m["epoch"] and m["eff"] - at <= (q - 1) * e:
                    key = pool_key(cfg, ki)
                    r = call(f.check, key)
                    # the *_alt interface with a hash list longer than number_hashes (shared across structures)
                    r2 = call(lambda: f.check_alt(self._hf(cfg)(key, self._nhashes(cfg) + 2)))
                    if r != ("ok", True) or r2 != ("ok", True):
                        bad("C10", "rot.recent_insertion_present", {"key": repr(key), "inserted_at": at, "effective_now": m["eff"],
                                                                     "window": (q - 1) * e, "check": r, "check_alt(longer list)": r2, "after": ev})
                        break
        if not rot and "C01" in props:
            for ki in m["allkeys"]:
                key = pool_key(cfg, ki)
                r, r2 = call(f.check, key), call(f.__contains__, key)
                r3 = call(lambda: f.check_alt(self._hf(cfg)(key, self._nhashes(cfg) + 2)))
                if r != ("ok", True) or r2 != ("ok", True) or r3 != ("ok", True):
                    bad("C01", "exp.added_key_present", {"key": repr(key), "check": r, "in": r2, "check_alt(longer list)": r3, "after": ev})
                    break
        if "C14" in props and f.elements_added != m["adds"]:
            bad("C14", "exp.elements_added_is_add_calls", {"expected": m["adds"], "obs": f.elements_added, "cls": cfg["cls"], "after": ev})
        if "C05" in props:
            self._roundtrip(cfg, post, bad)
        if "C06" in props:
            from mc import cref

            cref.exp_c06(cfg, post, self, bad)
        if "C19" in props:
            self._queries(cfg, post, bad)
        return out

    def _obs(self, cfg, f):
        o = [call(bytes, f), f.elements_added, f.expansions, f.estimated_elements,
             struct.pack("=f", f.false_positive_rate)]
        if cfg["cls"] == "rot":
            o += [f.current_queue_size, f.max_queue_size]
        return tuple(o)

    def _probes(self, cfg, st):
        return [pool_key(cfg, i) for i in range(min(st.model["next"] + 2, 12))] + ["absent-1", b"absent-2"]

    def _roundtrip(self, cfg, st, bad):
        f = st.impl
        cls = type(f)
        hf = self._hf(cfg)
        kw = {"max_queue_size": cfg["Q"]} if cfg["cls"] == "rot" else {}
        b = call(bytes, f)
        if b[0] != "ok":
            bad("C05", "exp.export_bytes", {"obs": b})
            return
        blob = b[1]
        probes = self._probes(cfg, st)
        ref = (self._obs(cfg, f), [call(f.check, k) for k in probes])
        tmp = tempfile.mkdtemp(prefix="vex")
        try:
            path = os.path.join(tmp, "x.ebf")
            loaders = [("frombytes", lambda: cls.frombytes(blob, hash_function=hf, **kw)),
                       ("frombytes(bytearray)", lambda: cls.frombytes(bytearray(blob), hash_function=hf, **kw)),
                       ("frombytes(memoryview)", lambda: cls.frombytes(memoryview(blob), hash_function=hf, **kw))]
            e = call(f.export, path)
            if e[0] != "ok":
                bad("C05", "exp.export_path", {"obs": e})
            else:
                with open(path, "rb") as fh:
                    if fh.read() != blob:
                        bad("C05", "exp.channels_same_payload", {"channel": "path"})
                loaders.append(("filepath", lambda: cls(filepath=path, hash_function=hf, **kw)))
            bio = io.BytesIO()
            e2 = call(f.export, bio)
            if e2[0] != "ok" or bio.getvalue() != blob:
                bad("C05", "exp.channels_same_payload", {"channel": "fileobj", "obs": e2[0]})
            for name, ld in loaders:
                r = call(ld)
                if r[0] != "ok":
                    bad("C05", "exp.load", {"channel": name, "obs": r})
                    continue
                g = r[1]
                if type(g) is not cls:
                    bad("C05", "exp.loaded_class", {"channel": name, "type": type(g).__name__})
                got = (self._obs(cfg, g), [call(g.check, k) for k in probes])
                if got != ref:
                    bad("C05", "exp.loaded_equals_original", {"channel": name, "orig": repr(ref)[:400], "loaded": repr(got)[:400]})
        finally:
            shutil.rmtree(tmp, ignore_errors=True)

    def _ro(self, cfg, st):
        f = st.impl
        for k in self._probes(cfg, st):
            call(f.check, k)
            call(f.__contains__, k)
        call(bytes, f)
        call(f.export, io.BytesIO())
        call(lambda: (f.expansions, f.elements_added, f.estimated_elements, f.false_positive_rate, f.hash_function))

    def _queries(self, cfg, st, bad):
        pristine = self.clone(st)  # taken before any query of this state: the "untouched" twin
        f = st.impl
        before = self._obs(cfg, f)
        self._ro(cfg, st)
        after = self._obs(cfg, f)
        if before != after:
            bad("C19", "exp.queries_do_not_mutate", {"before": repr(before)[:300], "after": repr(after)[:300]})
        bb = call(bytes, f)
        if bb[0] == "ok":
            kw = {"max_queue_size": cfg["Q"]} if cfg["cls"] == "rot" else {}
            fl = call(lambda: type(f).frombytes(bb[1], hash_function=self._hf(cfg), **kw))
            if fl[0] == "ok":
                probes = self._probes(cfg, st)
                a1 = [call(f.check, k) for k in probes]
                a2 = [call(fl[1].check, k) for k in probes]
                if a1 != a2:
                    bad("C19", "exp.answers_independent_of_earlier_queries", {"live": repr(a1)[:300], "fresh_load": repr(a2)[:300]})
        if self.cur_depth <= cfg.get("twin_depth", 2):
            div = twin_divergence(self, cfg, pristine, lambda q: self._ro(cfg, q), lambda x: self._obs(cfg, x.impl))
            if div is not None:
                bad("C19", "exp.queried_twin_diverges_one_step_later", div)


    def check_initial(self, cfg, st, props):
        return self.check_state(cfg, st, ("init",), ("ok", None), st, set(props))

    def check(self, cfg, pre, ev, obs, post, props):
        return super().check(cfg, pre, ev, obs, post, set(props))


SYSTEM = ExpSystem()
