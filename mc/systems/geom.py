"""L-GEOM: derived sizes honour the requested accuracy and are stable across reloads
(C07, level exploration: exhaustive over a finite lattice of configurations, exact arithmetic)."""
from __future__ import annotations

import math
import struct
import time
from decimal import Decimal, getcontext
from fractions import Fraction

from mc.engine import Result, System, Violation

from probables import (
    BloomFilter,
    CountingBloomFilter,
    CountingCuckooFilter,
    CountMeanMinSketch,
    CountMeanSketch,
    CountMinSketch,
    CuckooFilter,
    ExpandingBloomFilter,
    HeavyHitters,
    StreamThreshold,
)
from probables.exceptions import InitializationError

getcontext().prec = 60
LN2 = Decimal(2).ln()
EPS = Decimal("1e-12")
TOL = 1 + Fraction(1, 10**12)


def f32(x):
    return struct.unpack("=f", struct.pack("=f", x))[0]


def rates(tier):
    out = set()
    mant = range(16, 32) if tier == "quick" else range(32, 64)
    den = 32 if tier == "quick" else 64
    for e in range(-40, 0):
        for m in mant:
            out.add(m / den * 2.0**(e + 1))
    for d in (0.9, 0.75, 0.5, 0.3, 0.25, 0.2, 0.1, 0.05, 0.03, 0.01, 0.005, 1e-3, 1e-4, 1e-5, 1e-6, 1e-8, 1e-10, 1e-20, 1e-30, 1.4e-45):
        out.add(d)
        out.add(math.nextafter(d, 0.0))
        out.add(math.nextafter(d, 1.0))
    return sorted(r for r in out if 0.0 < r < 1.0)


def n_values(tier):
    ns = set(range(1, 301 if tier == "quick" else 4001))
    for k in range(1, 18 if tier == "quick" else 21):
        ns.update((2**k - 1, 2**k, 2**k + 1))
    return sorted(ns)


class GeomSystem(System):
    name = "geom"
    serves = ("C07",)
    rule = (
        "Bloom: every (est_elements, rate) with est_elements in 1..300 (thorough 4000) and 2^k, 2^k+-1 (k<=17, "
        "thorough 20), rates = every m/32 * 2^e (m=16..31, e=-39..0; thorough m/64) plus decimal rates 0.9 .. 1.4e-45 "
        "and their floating-point neighbours; constructor-accepted points are checked with 60-digit decimal / exact "
        "rational arithmetic; count-min: confidence, error_rate over j/64, 2^-k, 1/j (j<=200) and their neighbours; "
        "cuckoo: bucket_size 1..8 x error rates 2^-k, 3*2^-k and neighbours with <= 32 fingerprint bits; every point "
        "is also pushed through construct -> export -> load. non-trivial = accepted points (distinct geometries counted)."
    )

    def configs(self, prop, tier, seed):
        ns = n_values(tier)
        chunk = 20 if tier == "quick" else 100
        cfgs = []
        for i in range(0, len(ns), chunk):
            cfgs.append(dict(part="bloom", ns=ns[i:i + chunk], tier=tier, cost=sum(ns[i:i + chunk])))
        cfgs.append(dict(part="cms", tier=tier, cost=50))
        cfgs.append(dict(part="cuckoo", tier=tier, cost=50))
        return cfgs

    def run(self, cfg, props, tier):
        t0 = time.time()
        res = Result(self.name, cfg)

        def bad(oracle, detail):
            if len(res.violations) < 20:
                res.violations.append((Violation("C07", oracle, detail), {"part": cfg["part"], "case": detail}))

        evals = 0
        distinct = set()
        rejected = 0
        part = cfg["part"]
        if part == "bloom":
            rs = rates(cfg["tier"])
            lnt_cache = {}
            for n in cfg["ns"]:
                for p in rs:
                    evals += 1
                    # keep memory bounded: m ~ n * log2(1/p) * 1.44 bits
                    if n * (-math.log2(p)) * 1.45 > 4e7:
                        continue
                    try:
                        f = BloomFilter(n, p)
                    except InitializationError:
                        rejected += 1
                        continue
                    m, k = f.number_bits, f.number_hashes
                    distinct.add((m, k))
                    t = f32(p)
                    where = {"est_elements": n, "rate": p, "rate_f32": t, "number_bits": m, "number_hashes": k}
                    if k < 1:
                        bad("geom.bloom_at_least_one_hash", where)
                    if f.bloom_length != -(-m // 8) or f.export_size() != f.bloom_length + 20:
                        bad("geom.bloom_length", {**where, "bloom_length": f.bloom_length, "export_size": f.export_size()})
                    if f.false_positive_rate != t or f.estimated_elements != n:
                        bad("geom.bloom_reports_request", {**where, "fpr": f.false_positive_rate})
                    if t not in lnt_cache:
                        lnt_cache[t] = Decimal(Fraction(t).numerator).ln() - Decimal(Fraction(t).denominator).ln()
                    v = -Decimal(n) * lnt_cache[t] / (LN2 * LN2)
                    lo = (v * (1 - EPS)).to_integral_value(rounding="ROUND_CEILING")
                    hi = (v * (1 + EPS)).to_integral_value(rounding="ROUND_CEILING")
                    if not lo <= m <= hi:
                        bad("geom.bloom_bits_is_ceil_formula", {**where, "expected": [int(lo), int(hi)]})
                    kk = LN2 * m / n
                    r0 = int(kk.to_integral_value(rounding="ROUND_HALF_EVEN"))
                    acc = {r0}
                    frac = kk - int(kk)
                    if abs(frac - Decimal("0.5")) < Decimal("1e-9"):
                        acc |= {int(kk), int(kk) + 1}
                    if k not in acc:
                        bad("geom.bloom_hashes_is_round_formula", {**where, "expected": sorted(acc)})
                    # theoretical false-positive rate at the planned load
                    th = (1 - (-(Decimal(k) * n) / m).exp()) ** k
                    if th > Decimal(t) * Decimal("1.07"):
                        bad("geom.bloom_rate_within_allowance", {**where, "theoretical": float(th), "excess": float(th / Decimal(t))})
                    # same inputs -> same geometry; reload keeps it
                    if m * 1 <= 200000:
                        g = BloomFilter(n, p)
                        if (g.number_bits, g.number_hashes) != (m, k):
                            bad("geom.bloom_deterministic", where)
                        if (n + len(rs)) % 7 == 0 or m < 2000:
                            b = BloomFilter.frombytes(bytes(f))
                            h = BloomFilter(hex_string=f.export_hex())
                            for name, x in (("frombytes", b), ("hex", h)):
                                if (x.number_bits, x.number_hashes, x.bloom_length, x.false_positive_rate, x.estimated_elements) != (
                                    m, k, f.bloom_length, t, n):
                                    bad("geom.bloom_stable_across_reload", {**where, "channel": name,
                                                                            "loaded": [x.number_bits, x.number_hashes]})
                        if m < 400 and (n % 3 == 0):
                            c = CountingBloomFilter(n, p)
                            if (c.number_bits, c.number_hashes) != (m, k) or c.bloom_length != m:
                                bad("geom.counting_bloom_same_geometry", {**where, "counting": [c.number_bits, c.number_hashes, c.bloom_length]})
                            c2 = CountingBloomFilter.frombytes(bytes(c))
                            if (c2.number_bits, c2.number_hashes, c2.bloom_length) != (m, k, m):
                                bad("geom.bloom_stable_across_reload", {**where, "channel": "counting.frombytes"})
                            e = ExpandingBloomFilter(est_elements=n, false_positive_rate=p)
                            e2 = ExpandingBloomFilter.frombytes(bytes(e))
                            if bytes(e2) != bytes(e) or e2.estimated_elements != n or f32(e2.false_positive_rate) != t:
                                bad("geom.bloom_stable_across_reload", {**where, "channel": "expanding.frombytes"})
            res.samples = [{"est_elements": cfg["ns"][0], "rate": rs[len(rs) // 2]}]
        elif part == "cms":
            vals = set()
            for j in range(1, 64):
                vals.add(j / 64)
            for k in range(1, 40):
                vals.add(2.0**-k)
                vals.add(1 - 2.0**-k)
            for j in range(2, 201):
                vals.add(1 / j)
            for v in list(vals):
                vals.add(math.nextafter(v, 0.0))
                vals.add(math.nextafter(v, 1.0))
                for rel in (1e-11, 1e-10, 1e-9, 1e-7, 1e-5):
                    # just outside the rounding allowance on either side of a size boundary
                    vals.add(v * (1 + rel))
                    vals.add(v * (1 - rel))
                    vals.add(1 - (1 - v) * (1 + rel))
                    vals.add(1 - (1 - v) * (1 - rel))
            vals = sorted(v for v in vals if 0.0 < v < 1.0)
            errs = [v for v in vals if v >= 2.0**-16]  # width = ceil(2/err): keep the counter array small
            confs = [v for v in vals if v <= 1 - 2.0**-30]
            checked_w = {}
            checked_d = {}
            # every class of the family derives the same geometry from (confidence, error_rate)
            grid = [0.999, 0.99, 0.9, 0.75, 0.5, 0.3, 0.1, 0.05, 0.01, 0.002]
            for conf in grid:
                for err in grid:
                    base = CountMinSketch(confidence=conf, error_rate=err)
                    for sub in (CountMeanSketch, CountMeanMinSketch, HeavyHitters, StreamThreshold):
                        evals += 1
                        try:
                            t = sub(confidence=conf, error_rate=err)
                            got = (t.width, t.depth)
                        except (Exception, MemoryError) as exc:  # noqa: BLE001
                            got = f"{type(exc).__name__}: {exc}"[:80]
                        if got != (base.width, base.depth):
                            bad("geom.cms_subclass_same_geometry", {"confidence": conf, "error_rate": err, "cls": sub.__name__,
                                                                    "obs": got, "expected": [base.width, base.depth]})
            for err in errs:
                for conf in (confs if cfg["tier"] == "thorough" else confs[:: max(1, len(confs) // 40)]):
                    evals += 1
                    if err in checked_w and conf in checked_d:
                        continue
                    try:
                        s = CountMinSketch(confidence=conf, error_rate=err)
                    except InitializationError:
                        rejected += 1
                        continue
                    w, d = s.width, s.depth
                    distinct.add((w, d))
                    checked_w[err] = w
                    checked_d[conf] = d
                    where = {"confidence": conf, "error_rate": err, "width": w, "depth": d}
                    if w < 1 or d < 1:
                        bad("geom.cms_positive", where)
                        continue
                    # a rounding allowance of 1e-12 (relative): requests within a hair of a size boundary are
                    # decided in double arithmetic by the library and are not held against it either way
                    if Fraction(2, w) > Fraction(err) * TOL:
                        bad("geom.cms_width_honours_error_rate", {**where, "2/width": float(Fraction(2, w))})
                    if (1 - Fraction(1, 2**d)) * TOL < Fraction(conf):
                        bad("geom.cms_depth_honours_confidence", {**where, "1-2^-depth": float(1 - Fraction(1, 2**d))})
                    if w * d <= 4096:
                        s2 = CountMinSketch.frombytes(bytes(s))
                        if (s2.width, s2.depth) != (w, d):
                            bad("geom.cms_stable_across_reload", where)
                        s3 = CountMinSketch(confidence=conf, error_rate=err)
                        if (s3.width, s3.depth) != (w, d):
                            bad("geom.cms_deterministic", where)
            res.samples = [{"confidence": confs[3], "error_rate": errs[3]}]
        else:
            import os
            import shutil
            import tempfile

            tmpdir = tempfile.mkdtemp(prefix="vgc")
            seen_files = set()
            ers = set()
            for k in range(1, 31):
                for base in (2.0**-k, 3 * 2.0**-(k + 2), 5 * 2.0**-(k + 3), 7 * 2.0**-(k + 3), 2.0**-k / 3, 2.0**-k / 5):
                    ers.update((base, math.nextafter(base, 0.0), math.nextafter(base, 1.0)))
                    for rel in (1e-11, 1e-9, 1e-6):
                        ers.update((base * (1 + rel), base * (1 - rel)))
            ers.update((0.5, 0.25, 0.1, 0.01, 0.001, 1e-4, 1e-6, 1e-8))
            for b in range(1, 9):
                for er in sorted(e for e in ers if 0 < e < 1):
                    for cls in (CuckooFilter, CountingCuckooFilter):
                        evals += 1
                        f = cls.init_error_rate(er, capacity=4, bucket_size=b, max_swaps=5)
                        bits = f.fingerprint_size_bits
                        if bits > 32:
                            continue  # outside the claim (fingerprints are stored in 32 bits)
                        distinct.add((b, bits))
                        where = {"bucket_size": b, "error_rate": er, "fingerprint_bits": bits, "cls": cls.__name__}
                        if Fraction(2 * b, 2**bits) > Fraction(er) * TOL:
                            bad("geom.cuckoo_fingerprint_honours_error_rate", {**where, "achieved": float(Fraction(2 * b, 2**bits))})
                        if f.error_rate != er:
                            bad("geom.cuckoo_reports_request", {**where, "obs": f.error_rate})
                        g = cls.frombytes(bytes(f), error_rate=er)
                        if g.fingerprint_size_bits != bits or g.bucket_size != b or g.capacity != 4:
                            bad("geom.cuckoo_stable_across_reload", {**where, "channel": "frombytes", "loaded_bits": g.fingerprint_size_bits})
                        if tmpdir is not None and (b, round(math.log2(er))) not in seen_files:
                            # the file loader with the rate re-supplied (one per bucket size and rate magnitude)
                            seen_files.add((b, round(math.log2(er))))
                            path = os.path.join(tmpdir, "c.cko")
                            f.export(path)
                            g2 = cls.load_error_rate(er, path)
                            if g2.fingerprint_size_bits != bits or g2.bucket_size != b or g2.capacity != 4:
                                bad("geom.cuckoo_stable_across_reload", {**where, "channel": "load_error_rate", "loaded_bits": g2.fingerprint_size_bits})
                        h = cls.init_error_rate(er, capacity=4, bucket_size=b, max_swaps=5)
                        if h.fingerprint_size_bits != bits:
                            bad("geom.cuckoo_deterministic", where)
            shutil.rmtree(tmpdir, ignore_errors=True)
            res.samples = [{"bucket_size": 4, "error_rate": 0.01}]
        res.states = len(distinct)
        res.nontrivial_states = len(distinct)
        res.transitions = evals
        res.closure = True
        res.extra["depth_completed"] = "closure"
        res.extra["rejected_by_constructor"] = rejected
        res.wall = time.time() - t0
        return res

    def replay(self, cfg, history, props):
        r = self.run(cfg, props, cfg.get("tier", "quick"))
        return [(v, h) for v, h in r.violations]


SYSTEM = GeomSystem()
