"""L-HASH: exhaustive input enumeration for the hashing strategies (C18, level exploration)."""
from __future__ import annotations

import time

from mc import keys as K
from mc.engine import Result, System, Violation

from probables import BloomFilter, CountingBloomFilter, CountMinSketch, CuckooFilter, ExpandingBloomFilter, QuotientFilter
from probables.hashes import default_fnv_1a, default_md5, default_sha256, fnv_1a, fnv_1a_32

M64 = (1 << 64) - 1
M32 = (1 << 32) - 1

# published FNV-1a vectors (Fowler/Noll/Vo reference test suite)
VECTORS64 = {b"": 0xCBF29CE484222325, b"a": 0xAF63DC4C8601EC8C, b"foobar": 0x85944171F73967E8}
VECTORS32 = {b"": 0x811C9DC5, b"a": 0xE40C292C, b"foobar": 0xBF9CF968}


def ref64(data, index=0):
    h = (0xCBF29CE484222325 + 31 * index) & M64
    for b in data:
        h = ((h ^ b) * 0x100000001B3) & M64
    return h


def ref32(data, index=0):
    h = (0x811C9DC5 + 31 * index) & M32
    for b in data:
        h = ((h ^ b) * 0x01000193) & M32
    return h


SEEDS = [0, 1, 2, 31, 2**32, (2**64) // 31 - 1, (2**64) // 31, (2**64) // 31 + 1, 2**64 - 1, 2**64, 2**70]
DEPTHS = (1, 2, 3, 5, 8)


class HashSystem(System):
    name = "hashes"
    serves = ("C18",)
    rule = (
        "every byte string of length <= 2 (65 793 keys; thorough: length 3 for FNV-1a) x every shipped strategy "
        "(default_fnv_1a, default_md5, default_sha256, fnv_1a, fnv_1a_32) x depths {1,2,3,5,8}: called twice, length, "
        "range, prefix stability, equality with an independent FNV-1a (anchored by the published vectors); every ASCII "
        "text of length <= 2 against its bytes; every code point U+0080..U+07FF and fixed BMP/astral ones against the "
        "UTF-8 bytes (md5/sha256); 11 seeds incl. 2^64 wrap-around; two decorator-built strategies; hashes() of every "
        "structure against its strategy. non-trivial = distinct (strategy, key) pairs with a non-empty key."
    )

    def configs(self, prop, tier, seed):
        cfgs = [dict(part="misc", cost=5)]
        for lo in range(0, 256, 16):
            cfgs.append(dict(part="bytes2", lo=lo, hi=lo + 16, cost=10))
        if tier == "thorough":
            for lo in range(0, 256, 4):
                cfgs.append(dict(part="bytes3", lo=lo, hi=lo + 4, cost=60))
        return cfgs

    def run(self, cfg, props, tier):
        t0 = time.time()
        res = Result(self.name, cfg)
        viol = res.violations

        def bad(oracle, detail):
            if len(viol) < 20:
                viol.append((Violation("C18", oracle, detail), {"part": cfg["part"], "case": detail}))

        n = [0, 0]  # evaluations, distinct nontrivial

        def check_strategy(name, hf, key, fnv_ref=None, depths=DEPTHS):
            full = hf(key, max(depths))
            frozen = list(full)  # an answer belongs to its caller: later calls must not rewrite it
            n[0] += 1
            if len(key) > 0:
                n[1] += 1
            if hf(key, max(depths)) != full:
                bad("hash.deterministic", {"strategy": name, "key": repr(key)})
            if len(full) != max(depths):
                bad("hash.length_is_depth", {"strategy": name, "key": repr(key), "len": len(full)})
            for v in full:
                if not isinstance(v, int) or not 0 <= v <= M64:
                    bad("hash.unsigned_64", {"strategy": name, "key": repr(key), "value": v})
                    break
            for d in depths:
                part = hf(key, d)
                if part != full[:d] or len(part) != d:
                    bad("hash.prefix_stable", {"strategy": name, "key": repr(key), "depth": d})
                    break
            other = hf(b"another-key", 2)
            if full != frozen or len(full) != max(depths) or other is full:
                bad("hash.answers_are_independent_objects", {"strategy": name, "key": repr(key), "first_answer_now": repr(full)[:120],
                                                             "first_answer_was": repr(frozen)[:120]})
            if fnv_ref is not None:
                data = key if isinstance(key, bytes) else key.encode("ascii")
                want = [fnv_ref(data, i) for i in range(max(depths))]
                if full != want:
                    bad("hash.equals_reference_fnv1a", {"strategy": name, "key": repr(key), "obs": full[:2], "expected": want[:2]})

        part = cfg["part"]
        if part == "bytes2":
            for a in range(cfg["lo"], cfg["hi"]):
                for b in range(256):
                    key = bytes([a, b])
                    check_strategy("default_fnv_1a", default_fnv_1a, key, ref64)
                    check_strategy("default_md5", default_md5, key, None, (1, 3))
                    check_strategy("default_sha256", default_sha256, key, None, (1, 3))
                    if fnv_1a(key) != ref64(key) or fnv_1a_32(key) != ref32(key) or fnv_1a(key, 3) != ref64(key, 3) or fnv_1a_32(key, 5) != ref32(key, 5):
                        bad("hash.equals_reference_fnv1a", {"strategy": "fnv_1a/fnv_1a_32", "key": repr(key)})
                    n[0] += 1
                    if a < 128 and b < 128:
                        text = key.decode("ascii")
                        if default_fnv_1a(text, 3) != default_fnv_1a(key, 3) or fnv_1a_32(text, 1) != fnv_1a_32(key, 1):
                            bad("hash.ascii_text_equals_bytes", {"strategy": "fnv", "key": repr(text)})
                        if default_md5(text, 2) != default_md5(key, 2) or default_sha256(text, 2) != default_sha256(key, 2):
                            bad("hash.text_equals_utf8", {"strategy": "md5/sha256", "key": repr(text)})
                        n[0] += 1
            res.samples = [{"key": repr(bytes([cfg["lo"], 7])), "fnv64": hex(default_fnv_1a(bytes([cfg["lo"], 7]), 1)[0])}]
        elif part == "bytes3":
            for a in range(cfg["lo"], cfg["hi"]):
                for b in range(256):
                    for c in range(256):
                        key = bytes([a, b, c])
                        got = default_fnv_1a(key, 2)
                        n[0] += 1
                        n[1] += 1
                        if got != [ref64(key, 0), ref64(key, 1)] or fnv_1a_32(key) != ref32(key):
                            bad("hash.equals_reference_fnv1a", {"strategy": "default_fnv_1a", "key": repr(key)})
            res.samples = [{"key": repr(bytes([cfg["lo"], 1, 2]))}]
        else:
            # anchors: the independent reference itself reproduces the published vectors
            for data, want in VECTORS64.items():
                if ref64(data) != want:
                    raise AssertionError("reference FNV-1a 64 does not reproduce the published vector")
                if fnv_1a(data) != want or default_fnv_1a(data, 1) != [want]:
                    bad("hash.published_vector", {"key": repr(data), "obs": fnv_1a(data), "expected": want})
            for data, want in VECTORS32.items():
                if ref32(data) != want:
                    raise AssertionError("reference FNV-1a 32 does not reproduce the published vector")
                if fnv_1a_32(data) != want:
                    bad("hash.published_vector", {"key": repr(data), "obs": fnv_1a_32(data), "expected": want})
            # length 0 and 1
            for key in [b""] + [bytes([a]) for a in range(256)]:
                check_strategy("default_fnv_1a", default_fnv_1a, key, ref64)
                check_strategy("default_md5", default_md5, key)
                check_strategy("default_sha256", default_sha256, key)
                check_strategy("dec_bytes", K.blake_bytes, key)
                check_strategy("dec_int", K.crc_int, key)
                check_strategy("dec_salted", K.salted_bytes, key)
            for a in range(128):
                t = chr(a)
                if default_fnv_1a(t, 4) != default_fnv_1a(t.encode(), 4) or fnv_1a_32(t) != fnv_1a_32(t.encode()):
                    bad("hash.ascii_text_equals_bytes", {"key": repr(t)})
            # non-ASCII text: md5 / sha256 hash the UTF-8 bytes
            cps = list(range(0x80, 0x800)) + [0x800, 0xFFFF, 0x4E2D, 0x20AC, 0x10000, 0x1F600, 0x10FFFF]
            for cp in cps:
                if 0xD800 <= cp <= 0xDFFF:
                    continue
                t = "k" + chr(cp)
                for name, hf in (("default_md5", default_md5), ("default_sha256", default_sha256), ("dec_bytes", K.blake_bytes)):
                    n[0] += 1
                    n[1] += 1
                    if hf(t, 3) != hf(t.encode("utf-8"), 3):
                        bad("hash.text_equals_utf8", {"strategy": name, "key": repr(t)})
                check_strategy("default_fnv_1a(text)", default_fnv_1a, t, None, (1, 2, 4))
            # seeds
            for key in (b"", b"a", b"foobar", bytes(range(256)), "text", "x" * 70):
                data = key if isinstance(key, bytes) else key.encode()
                for s in SEEDS:
                    n[0] += 1
                    n[1] += 1
                    if fnv_1a(key, s) != ref64(data, s):
                        bad("hash.seed_advances_offset_basis", {"width": 64, "key": repr(key), "seed": s, "obs": fnv_1a(key, s), "expected": ref64(data, s)})
                    if fnv_1a_32(key, s) != ref32(data, s):
                        bad("hash.seed_advances_offset_basis", {"width": 32, "key": repr(key), "seed": s, "obs": fnv_1a_32(key, s), "expected": ref32(data, s)})
            # depths beyond the usual, decorator strategies on longer keys
            for key in ("alpha", b"bravo", "chärlie", "d" * 300):
                for name, hf in (("default_fnv_1a", default_fnv_1a), ("default_md5", default_md5), ("default_sha256", default_sha256),
                                 ("dec_bytes", K.blake_bytes), ("dec_int", K.crc_int), ("dec_salted", K.salted_bytes)):
                    check_strategy(name, hf, key, None, (1, 2, 7, 16, 33))
            # a decorator-built strategy must hand its function the round index (documented wrapper contract)
            import hashlib
            import struct as _struct

            for key in (b"salt", "sält", b"\x00\xff"):
                tmp = key if isinstance(key, bytes) else key.encode("utf-8")
                want = []
                for i in range(6):
                    tmp = hashlib.blake2b(tmp, digest_size=16, salt=int(i).to_bytes(8, "little")).digest()
                    want.append(_struct.unpack("Q", tmp[:8])[0])
                n[0] += 1
                for d in (6, 1, 3):
                    if K.salted_bytes(key, d) != want[:d]:
                        bad("hash.decorator_passes_round_index", {"key": repr(key), "depth": d, "obs": K.salted_bytes(key, d)[:2], "expected": want[:2]})
                        break
            # increasing deep requests in one process (lazily grown per-index tables, memoised chains)
            for name, hf, ref in (("default_fnv_1a", default_fnv_1a, ref64), ("default_md5", default_md5, None),
                                  ("default_sha256", default_sha256, None), ("dec_bytes", K.blake_bytes, None)):
                for key in (b"deep", "deep-text"):
                    data = key if isinstance(key, bytes) else key.encode()
                    seen_full = None
                    for d in (17, 18, 20, 5, 33, 2, 40, 64, 65, 3, 65):
                        got = hf(key, d)
                        n[0] += 1
                        if ref is not None and got != [ref(data, i) for i in range(d)]:
                            bad("hash.equals_reference_fnv1a", {"strategy": name, "key": repr(key), "depth": d, "after": "earlier deeper/shallower requests"})
                            break
                        if seen_full is not None and got[: min(d, len(seen_full))] != seen_full[: min(d, len(seen_full))]:
                            bad("hash.prefix_stable", {"strategy": name, "key": repr(key), "depth": d, "after": "earlier requests of other depths"})
                            break
                        if seen_full is None or len(got) > len(seen_full):
                            seen_full = got
            # every structure's hashes() is its strategy
            for name, hf in (("fnv", default_fnv_1a), ("md5", default_md5), ("dec_int", K.crc_int), (None, None)):
                eff = hf or default_fnv_1a
                for key in ("alpha", b"bravo", "chärlie"):
                    structs = [
                        BloomFilter(10, 0.05, hash_function=hf),
                        CountingBloomFilter(10, 0.05, hash_function=hf),
                        CountMinSketch(width=5, depth=4, hash_function=hf),
                    ]
                    for s in structs:
                        n[0] += 1
                        nat = s.number_hashes if hasattr(s, "number_hashes") else s.depth
                        if s.hashes(key) != eff(key, nat) or s.hashes(key, 2) != eff(key, 2) or s.hashes(key, 9) != eff(key, 9):
                            bad("hash.structure_uses_its_strategy", {"structure": type(s).__name__, "strategy": name, "key": repr(key)})
                    e = ExpandingBloomFilter(est_elements=10, false_positive_rate=0.05, hash_function=hf)
                    if e.hash_function is not eff:
                        bad("hash.structure_uses_its_strategy", {"structure": "ExpandingBloomFilter", "strategy": name})
            # the quotient filter and the cuckoo filter use the 32 / 64 bit single-value FNV-1a by default
            q = QuotientFilter(quotient=8)
            for key in ("alpha", b"bravo", "k" * 40):
                data = key if isinstance(key, bytes) else key.encode()
                q.add(key)
                n[0] += 1
                if ref32(data) not in q.get_hashes():
                    bad("hash.quotient_filter_uses_fnv1a_32", {"key": repr(key), "expected": ref32(data), "stored": q.get_hashes()})
            c = CuckooFilter(capacity=64, bucket_size=2, finger_size=4)
            for key in ("alpha", b"bravo"):
                data = key if isinstance(key, bytes) else key.encode()
                c.add(key)
                fp = ref64(data) & 0xFFFFFFFF or 1
                if not any(fp in b for b in c.buckets):
                    bad("hash.cuckoo_uses_fnv1a_64", {"key": repr(key), "expected_fingerprint": fp})
            res.samples = [{"key": "b'foobar'", "fnv64": hex(fnv_1a(b"foobar")), "fnv32": hex(fnv_1a_32(b"foobar"))}]
        res.states = n[1]
        res.nontrivial_states = n[1]
        res.transitions = n[0]
        res.closure = True
        res.extra["depth_completed"] = "closure"
        res.wall = time.time() - t0
        return res

    def replay(self, cfg, history, props):
        r = self.run({k: v for k, v in cfg.items()}, props, "quick")
        return [(v, h) for v, h in r.violations]


SYSTEM = HashSystem()
