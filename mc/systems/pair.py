"""S-PAIR: pairs of reachable operand states - union / join (C12), intersection / Jaccard /
compatibility rules (C13), element count of a union or intersection (C14)."""
from __future__ import annotations

import os
import shutil
import tempfile
from fractions import Fraction

from mc import bloomlib, keys as K
from mc.engine import State, System, Violation, call, canon

from probables import BloomFilter, BloomFilterOnDisk, CountingBloomFilter, CountMeanSketch, CountMinSketch
from probables.hashes import default_fnv_1a

from mc.systems.cms import cms_table

GEOMS = ((1, 0.5), (3, 0.1), (5, 0.05), (10, 0.05))


def shifted_fnv(key, depth=1):
    return [h ^ 0x5A5A for h in default_fnv_1a(key, depth)]


class PairSystem(System):
    name = "pair"
    serves = ("C12", "C13", "C14")
    rule = (
        'state = (A, B): two structures of the same class, geometry and hash strategy, each built by its own stream; '
        'events A.add / B.add (counting Bloom and count-min also with amounts 1..2 and removes; two count-min configurations '
        'with unrestricted removes); all event sequences to the depth bound, i.e. all pairs of reachable operand states up to '
        'that many operations in total; at every pair state union/intersection/jaccard/join are evaluated in both orders (plain '
        'Bloom: also with either operand re-opened as BloomFilterOnDisk and with operands that are themselves union results) and '
        'compared cell-for-cell with one structure fed stream(A) then stream(B); incompatible operands (other size, same bytes '
        'other bits, other hash, hash agreeing on the first value only, same number of counters other shape), foreign operands '
        'and a refused join before a valid one are tried at every state; non-trivial = pair in which both operands are '
        'non-empty and share at least one set cell.'
    )

    def configs(self, prop, tier, seed):
        cfgs = []
        quick = tier == "quick"
        for n, p in GEOMS if quick else GEOMS + ((2, 0.3), (12, 0.01)):
            f = BloomFilter(n, p)
            for s in ("table", "fnv") if quick else ("table", "fnv", "md5", "dec_int"):
                cfgs.append(dict(kind="bloom", n=n, p=p, m=f.number_bits, k=f.number_hashes, strat=s, nkeys=3 if quick else 4,
                                 depth=4 if quick else 6, seed=seed, cost=6000))
        for n, p in GEOMS[:3] if quick else GEOMS:
            f = CountingBloomFilter(n, p)
            for s in ("table", "fnv"):
                cfgs.append(dict(kind="cbf", n=n, p=p, m=f.number_bits, k=f.number_hashes, strat=s, nkeys=3,
                                 depth=4 if quick else 5, seed=seed, cost=4000))
        for (w, d) in ((1, 1), (2, 2), (3, 2)) if quick else ((1, 1), (2, 2), (3, 2), (2, 3), (3, 3)):
            for s in ("table", "fnv"):
                cfgs.append(dict(kind="cms", width=w, depth_=d, strat=s, nkeys=3, depth=4 if quick else 5, seed=seed, cost=4000))
        # scale-up ("corridor") configurations: larger arrays (60 .. 240 bytes; 128 .. 512 counters) whose keys together touch every
        # byte, each operand built by "add the next key" only; and amounts at byte boundaries of a 32-bit counter
        for n, p in ((50, 0.01), (100, 0.05), (200, 0.01)):
            f = BloomFilter(n, p)
            for s in ("cover", "fnv"):
                cfgs.append(dict(kind="bloom", n=n, p=p, m=f.number_bits, k=f.number_hashes, strat=s, nkeys=8 if quick else 12,
                                 corridor=True, depth=8 if quick else 12, seed=seed, cost=9000))
        f = CountingBloomFilter(21, 0.05)
        cfgs.append(dict(kind="cbf", n=21, p=0.05, m=f.number_bits, k=f.number_hashes, strat="cover", nkeys=6, corridor=True,
                         depth=6, seed=seed, cost=6000))
        f = CountingBloomFilter(3, 0.1)
        cfgs.append(dict(kind="cbf", n=3, p=0.1, m=f.number_bits, k=f.number_hashes, strat="table", nkeys=2, depth=3, seed=seed,
                         amounts=[255, 256, 65536, 1 << 24], cost=6000))
        cfgs.append(dict(kind="cms", width=64, depth_=2, strat="edge", nkeys=4, depth=4, seed=seed, cost=6000))
        cfgs.append(dict(kind="cms", width=128, depth_=4, strat="fnv", nkeys=6, corridor=True, depth=6, seed=seed, cost=6000))
        cfgs.append(dict(kind="cms", width=2, depth_=2, strat="table", nkeys=2, depth=3, seed=seed, amounts=[255, 256, 65536, 1 << 24],
                         cost=4000))
        # sketches with removals beyond what was added (net total can be 0 with non-zero counters)
        cfgs.append(dict(kind="cms", width=3, depth_=2, strat="fnv", nkeys=2, depth=4 if quick else 5, seed=seed, free_remove=True, cost=4000))
        cfgs.append(dict(kind="cms", width=2, depth_=2, strat="table", nkeys=2, depth=4 if quick else 5, seed=seed, free_remove=True, cost=4000))
        if seed:
            r = seed % len(cfgs)
            cfgs = cfgs[r:] + cfgs[:r]
        return cfgs

    # ---- construction
    def _alpha(self, cfg):
        if cfg.get("strat") == "edge":
            # count-min keys on the last counter of a 64-counter block, the first one, and in between
            w, d = cfg["width"], cfg["depth_"]
            items = [("edge-a", [w - 1 + w * (i + 3) for i in range(d)]), ("edge-b", [0 + w * (i + 2) for i in range(d)]),
                     ("edge-c", [w - 2 + w * (i + 5) for i in range(d)]), ("edge-d", [(w // 2) + w * (i + 1) for i in range(d)])]
            return [k for k, _ in items][: cfg["nkeys"]], K.table_strategy(items)
        if cfg.get("corridor"):
            if cfg["kind"] == "cms":
                return K.corridor_alphabet(cfg["strat"], cfg["width"], cfg["depth_"], cfg["seed"], cfg["nkeys"])
            return K.corridor_alphabet(cfg["strat"], cfg["m"], cfg["k"], cfg["seed"], cfg["nkeys"])
        if cfg["kind"] == "cms":
            w, d = cfg["width"], cfg["depth_"]
            if cfg["strat"] == "table":
                items = cms_table(w, d)
                return [k for k, _ in items][: cfg["nkeys"]], K.table_strategy(items)
            keys, hf, _ = K.alphabet(cfg["strat"], w, d, cfg["seed"])
            return keys[: cfg["nkeys"]], hf
        keys, hf, _ = K.alphabet(cfg["strat"], cfg["m"], cfg["k"], cfg["seed"])
        if cfg["strat"] == "table":
            keys = [keys[0], keys[1], keys[2], keys[4]]
        return keys[: cfg["nkeys"]], hf

    def _new(self, cfg, hf=None):
        if hf is None:
            _, hf = self._alpha(cfg)
        if cfg["kind"] == "bloom":
            return BloomFilter(cfg["n"], cfg["p"], hash_function=hf)
        if cfg["kind"] == "cbf":
            return CountingBloomFilter(cfg["n"], cfg["p"], hash_function=hf)
        return CountMinSketch(width=cfg["width"], depth=cfg["depth_"], hash_function=hf)

    def initial(self, cfg):
        keys, _ = self._alpha(cfg)
        return State([self._new(cfg), self._new(cfg)], {"sa": [], "sb": [], "ta": [0] * len(keys), "tb": [0] * len(keys)})

    def events(self, cfg, st):
        keys, _ = self._alpha(cfg)
        evs = []
        amounts = (1,) if cfg["kind"] == "bloom" else tuple(cfg.get("amounts", (1, 2)))
        if cfg.get("corridor"):
            # each operand grows by "add the next key" (A takes the even keys, B the odd ones, both may take the last)
            for side in (0, 1):
                true = st.model["ta" if side == 0 else "tb"]
                mine = [i for i in range(len(keys)) if i % 2 == side or i == len(keys) - 1]
                nxt = [i for i in mine if true[i] == 0]
                if nxt:
                    evs.append(("add", side, nxt[0], 1))
            return evs
        for side in (0, 1):
            for i in range(len(keys)):
                for n in amounts:
                    evs.append(("add", side, i, n))
            if cfg["kind"] != "bloom":
                true = st.model["ta" if side == 0 else "tb"]
                for i in range(len(keys)):
                    if true[i] >= 1 or cfg.get("free_remove"):
                        evs.append(("remove", side, i, 1))
        return evs

    def apply(self, cfg, st, ev, choices=None):
        keys, _ = self._alpha(cfg)
        kind, side, i, n = ev
        f = st.impl[side]
        m = st.model
        if cfg["kind"] == "bloom":
            obs = call(f.add, keys[i])
        else:
            obs = call(f.add if kind == "add" else f.remove, keys[i], n)
        if obs[0] == "ok":
            sk, tk = ("sa", "ta") if side == 0 else ("sb", "tb")
            m[sk] = m[sk] + [[kind, i, n]]
            m[tk][i] += n if kind == "add" else -n
        return obs

    def key(self, cfg, st):
        # the verdicts depend on the operand objects and the true counts only, not on the order inside a stream
        return (canon(st.impl), tuple(st.model["ta"]), tuple(st.model["tb"]))

    def _cells(self, cfg, f):
        if cfg["kind"] == "cms":
            return list(f._bins) if False else list(call(bytes, f)[1][:-16])
        return bloomlib.cells_of(f)

    def nontrivial(self, cfg, pre, ev, obs, post):
        if cfg["kind"] == "cms":
            return sum(post.model["ta"]) > 0 and sum(post.model["tb"]) > 0
        a, b = (bloomlib.cells_of(x) for x in post.impl)
        return any(x and y for x, y in zip(a, b))

    def _single(self, cfg, m):
        """one structure fed stream(A) then stream(B)"""
        keys, hf = self._alpha(cfg)
        s = self._new(cfg, hf)
        for kind, i, n in m["sa"] + m["sb"]:
            if cfg["kind"] == "bloom":
                s.add(keys[i])
            elif kind == "add":
                s.add(keys[i], n)
            else:
                s.remove(keys[i], n)
        return s

    def check_step(self, cfg, pre, ev, obs, post, props):
        if obs[0] != "ok":
            return [Violation(p, "pair.event_returns", {"ev": ev, "obs": obs}) for p in props]
        return []

    def check_state(self, cfg, pre, ev, obs, post, props):
        out = []
        guards = []

        def bad(prop, oracle, detail):
            if prop in props:
                out.append(Violation(prop, oracle, detail, guards))

        kind = cfg["kind"]
        if kind == "cms":
            self._check_cms(cfg, post, props, bad)
        else:
            self._check_bloom(cfg, post, props, bad)
        return out

    # ---- Bloom / counting Bloom
    def _check_bloom(self, cfg, st, props, bad):
        keys, hf = self._alpha(cfg)
        a, b = st.impl
        m = st.model
        counting = cfg["kind"] == "cbf"
        probes = list(keys) + ["absent-1"]
        snap = [call(bytes, a), call(bytes, b), a.elements_added, b.elements_added]
        ca, cb = bloomlib.cells_of(a), bloomlib.cells_of(b)
        single = self._single(cfg, m)
        cs = bloomlib.cells_of(single)
        variants = [("mem", "mem", a, b)]
        # operands that are themselves results of a set operation (their element count is an estimate, possibly 0)
        empty = self._new(cfg, hf)
        da_, db_ = call(a.union, empty), call(b.union, empty)
        if da_[0] == "ok" and db_[0] == "ok" and da_[1] is not None and db_[1] is not None:
            if bloomlib.cells_of(da_[1]) != ca or bloomlib.cells_of(db_[1]) != cb:
                bad("C12", "pair.union_with_empty_is_copy", {"A": ca, "A_u_empty": bloomlib.cells_of(da_[1])})
            else:
                variants += [("derived", "mem", da_[1], b), ("mem", "derived", a, db_[1]), ("derived", "derived", da_[1], db_[1])]
        else:
            bad("C12", "pair.union_returns_filter", {"with": "empty", "obs": repr((da_, db_))[:200]})
        tmp = None
        opened = []
        if not counting and ("C12" in props or "C13" in props):
            tmp = tempfile.mkdtemp(prefix="vpd")
            try:
                pa, pb = os.path.join(tmp, "a.blm"), os.path.join(tmp, "b.blm")
                a.export(pa)
                b.export(pb)
                da = BloomFilterOnDisk(pa, hash_function=hf)
                db = BloomFilterOnDisk(pb, hash_function=hf)
                opened += [da, db]
                variants += [("disk", "mem", da, b), ("mem", "disk", a, db), ("disk", "disk", da, db)]
            except Exception as exc:  # noqa: BLE001
                bad("C12", "pair.ondisk_operand_opens", {"error": f"{type(exc).__name__}: {exc}"})
        try:
            for la, lb, x, y in variants:
                for order, (p, q, cp, cq) in (("A.B", (x, y, ca, cb)), ("B.A", (y, x, cb, ca))):
                    tag = {"receiver": la if order == "A.B" else lb, "operand": lb if order == "A.B" else la, "order": order}
                    if "C12" in props or "C14" in props:
                        u = call(p.union, q)
                        if u[0] != "ok" or u[1] is None:
                            bad("C12", "pair.union_returns_filter", {**tag, "obs": repr(u)[:200]})
                        else:
                            cu = bloomlib.cells_of(u[1])
                            if cu != cs:
                                bad("C12", "pair.union_equals_single_stream", {**tag, "union": cu, "single": cs, "A": ca, "B": cb})
                            for k in probes:
                                if (call(p.check, k)[1] or call(q.check, k)[1]) and not call(u[1].check, k)[1]:
                                    bad("C12", "pair.union_reports_either", {**tag, "key": repr(k)})
                            if counting:
                                for i, k in enumerate(keys):
                                    r = call(u[1].check, k)
                                    if r[0] != "ok" or r[1] < m["ta"][i] + m["tb"][i]:
                                        bad("C12", "pair.union_estimate_at_least_sum", {**tag, "key": repr(k), "check": r,
                                                                                       "true_sum": m["ta"][i] + m["tb"][i]})
                            self._count_is_estimate(u[1], counting, bad, "union", tag)
                    if "C13" in props or "C14" in props:
                        it = call(p.intersection, q)
                        if it[0] != "ok" or it[1] is None:
                            bad("C13", "pair.intersection_returns_filter", {**tag, "obs": repr(it)[:200]})
                        else:
                            ci = bloomlib.cells_of(it[1])
                            if counting:
                                ok_ = [bool(z) for z in ci] == [bool(s and t) for s, t in zip(cp, cq)]
                            else:
                                ok_ = ci == [s & t for s, t in zip(cp, cq)]
                            if not ok_:
                                bad("C13", "pair.intersection_is_positions_in_both", {**tag, "intersection": ci, "A": cp, "B": cq})
                            for k in probes:
                                if call(p.check, k)[1] and call(q.check, k)[1] and not call(it[1].check, k)[1]:
                                    bad("C13", "pair.intersection_reports_both", {**tag, "key": repr(k)})
                            self._count_is_estimate(it[1], counting, bad, "intersection", tag)
                    if "C13" in props:
                        j = call(p.jaccard_index, q)
                        j2 = call(q.jaccard_index, p)
                        if counting:
                            ni = sum(1 for s, t in zip(cp, cq) if s and t)
                            nu = sum(1 for s, t in zip(cp, cq) if s or t)
                        else:
                            ni = sum(bin(s & t).count("1") for s, t in zip(cp, cq))
                            nu = sum(bin(s | t).count("1") for s, t in zip(cp, cq))
                        want = Fraction(1) if nu == 0 else Fraction(ni, nu)
                        if j[0] != "ok" or not isinstance(j[1], float) or abs(Fraction(j[1]) - want) > Fraction(1, 10**12):
                            bad("C13", "pair.jaccard_is_ratio", {**tag, "expected": str(want), "obs": repr(j)})
                        elif j != j2:
                            bad("C13", "pair.jaccard_symmetric", {**tag, "ab": j, "ba": j2})
                        elif not 0.0 <= j[1] <= 1.0:
                            bad("C13", "pair.jaccard_in_unit_interval", {**tag, "obs": j})
            if "C13" in props:
                # identical operands (incl. empty)
                for x, cx in ((a, ca), (b, cb)):
                    twin = self.clone(State(x, None)).impl
                    j = call(x.jaccard_index, twin)
                    if j != ("ok", 1.0):
                        bad("C13", "pair.jaccard_identical_is_one", {"obs": j})
                    it = call(x.intersection, twin)
                    if it[0] != "ok" or it[1] is None:
                        bad("C13", "pair.intersection_returns_filter", {"with": "identical operand", "obs": repr(it)[:200]})
                    else:
                        ci = bloomlib.cells_of(it[1])
                        same = ([bool(z) for z in ci] == [bool(z) for z in cx]) if counting else (ci == cx)
                        if not same:
                            bad("C13", "pair.intersection_with_identical_is_identity", {"operand": cx, "intersection": ci})
                self._incompatible(cfg, a, b, hf, counting, bad)
        finally:
            for d in opened:
                call(d.close)
            if tmp:
                shutil.rmtree(tmp, ignore_errors=True)
        if [call(bytes, a), call(bytes, b), a.elements_added, b.elements_added] != snap:
            bad("C13", "pair.operands_unchanged", {})
            bad("C12", "pair.operands_unchanged", {})

    def _count_is_estimate(self, res, counting, bad, what, tag):
        x = bloomlib.popcount_cells(bloomlib.cells_of(res), counting)
        acc = bloomlib.ref_estimate(res.number_bits, res.number_hashes, x)
        if res.elements_added not in acc:
            bad("C14", f"pair.{what}_count_is_estimate", {**tag, "accepted": sorted(acc), "obs": res.elements_added, "set": x})
        e = call(res.estimate_elements)
        if e[0] != "ok" or e[1] != res.elements_added:
            bad("C14", f"pair.{what}_count_is_estimate", {**tag, "estimate": e, "elements_added": res.elements_added})

    def _incompatible(self, cfg, a, b, hf, counting, bad):
        cls = CountingBloomFilter if counting else BloomFilter
        def later_rows_differ(key, depth=1):
            r = hf(key, depth)
            return r[:1] + [x ^ 0x5A5A5A for x in r[1:]]

        others = {
            "other_geometry": cls(cfg["n"] + 7, cfg["p"], hash_function=hf),
            "other_rate": cls(cfg["n"], 0.0001, hash_function=hf),
            "other_hash": cls(cfg["n"], cfg["p"], hash_function=shifted_fnv),
            "other_hash_same_first_value": cls(cfg["n"], cfg["p"], hash_function=later_rows_differ),
        }
        # a geometry that differs only inside the last byte (same number of hashes, same byte length)
        for j in range(1, 400):
            try:
                cand = cls(cfg["n"], cfg["p"] * (1 + j * 0.004), hash_function=hf)
            except Exception:  # noqa: BLE001
                break
            if cand.number_bits != a.number_bits and cand.number_hashes == a.number_hashes and (
                counting or cand.bloom_length == a.bloom_length
            ):
                others["other_bits_same_bytes"] = cand
                break
        for o in others.values():
            o.add("other-key")
        for name, o in others.items():
            if (o.number_bits, o.number_hashes) == (a.number_bits, a.number_hashes) and name != "other_hash":
                continue
            if name.startswith("other_hash") and a.hashes("test") == o.hashes("test"):
                continue
            ob = call(bytes, o)
            for x, y, order in ((a, o, "recv"), (o, a, "operand")):
                for op in ("union", "intersection", "jaccard_index"):
                    r = call(getattr(x, op), y)
                    if r != ("ok", None):
                        bad("C13", "pair.incompatible_returns_none", {"which": name, "op": op, "order": order, "obs": repr(r)[:200]})
            if call(bytes, o) != ob:
                bad("C13", "pair.operands_unchanged", {"which": name})
        foreign = [3, "text", None, 1.5, [a], CountMinSketch(width=2, depth=2)]
        if counting:
            foreign.append(BloomFilter(cfg["n"], cfg["p"], hash_function=hf))
        for fo in foreign:
            for op in ("union", "intersection", "jaccard_index"):
                r = call(getattr(a, op), fo)
                if r[0] != "exc" or r[1] != "TypeError":
                    bad("C13", "pair.foreign_raises_typeerror", {"op": op, "foreign": type(fo).__name__, "obs": repr(r)[:200]})

    # ---- count-min
    def _check_cms(self, cfg, st, props, bad):
        keys, hf = self._alpha(cfg)
        a, b = st.impl
        m = st.model
        snap = [call(bytes, a), call(bytes, b)]
        single = self._single(cfg, m)
        bs = call(bytes, single)
        for order, (x, y) in (("A.B", (a, b)), ("B.A", (b, a))):
            recv = self.clone(State(x, None)).impl
            if order == "B.A":
                # a join that is refused first must not leak into a later valid join
                wrong = CountMinSketch(width=cfg["width"] + 1, depth=cfg["depth_"], hash_function=hf)
                wrong.add(keys[0], 5)
                call(recv.join, wrong)
            r = call(recv.join, y)
            if "C12" in props:
                if r[0] != "ok":
                    bad("C12", "pair.join_returns", {"order": order, "obs": r})
                    continue
                br = call(bytes, recv)
                if br != bs:
                    bad("C12", "pair.join_equals_single_stream", {"order": order, "joined": br[1].hex() if br[0] == "ok" else br,
                                                                   "single": bs[1].hex() if bs[0] == "ok" else bs})
                if recv.elements_added != single.elements_added or recv.elements_added != sum(m["ta"]) + sum(m["tb"]):
                    bad("C12", "pair.join_total", {"order": order, "obs": recv.elements_added, "expected": sum(m["ta"]) + sum(m["tb"])})
                for i, k in enumerate(keys):
                    c = call(recv.check, k)
                    if (c[0] != "ok" or c[1] < m["ta"][i] + m["tb"][i]) and not cfg.get("free_remove"):
                        bad("C12", "pair.join_estimate_at_least_sum", {"order": order, "key": repr(k), "check": c})
                    if (call(x.check, k)[1] or call(y.check, k)[1]) and not c[1] and not cfg.get("free_remove"):
                        bad("C12", "pair.join_reports_either", {"order": order, "key": repr(k)})
            if "C14" in props and r[0] == "ok" and recv.elements_added != sum(m["ta"]) + sum(m["tb"]):
                bad("C14", "pair.join_total", {"order": order, "obs": recv.elements_added, "expected": sum(m["ta"]) + sum(m["tb"])})
            # a sketch of another query mode is still a compatible operand
            if "C12" in props:
                mean = CountMeanSketch(width=cfg["width"], depth=cfg["depth_"], hash_function=hf)
                r2 = call(mean.join, y)
                if r2[0] != "ok" or call(bytes, mean) != call(bytes, y):
                    bad("C12", "pair.join_into_empty_is_copy", {"order": order, "obs": r2})
        if "C13" in props:
            def later_rows_differ(key, depth=1):
                r = hf(key, depth)
                return r[:1] + [x ^ 0x5A5A5A for x in r[1:]]

            others = {
                "other_hash_same_first_row": CountMinSketch(width=cfg["width"], depth=cfg["depth_"], hash_function=later_rows_differ),
                "other_width": CountMinSketch(width=cfg["width"] + 1, depth=cfg["depth_"], hash_function=hf),
                # same number of counters, other shape
                "other_shape_same_size": CountMinSketch(width=cfg["width"] * cfg["depth_"], depth=1, hash_function=hf)
                if cfg["depth_"] > 1 else CountMinSketch(width=1, depth=max(2, cfg["width"]), hash_function=hf),
                "other_depth": CountMinSketch(width=cfg["width"], depth=cfg["depth_"] + 1, hash_function=hf),
                "other_hash": CountMinSketch(width=cfg["width"], depth=cfg["depth_"], hash_function=shifted_fnv),
            }
            for name, o in others.items():
                o.add("other-key", 3)
                if name.startswith("other_hash") and a.hashes("test") == o.hashes("test"):
                    continue
                ob = call(bytes, o)
                for x, y in ((a, o), (o, a)):
                    recv = self.clone(State(x, None)).impl
                    before = call(bytes, recv)
                    r = call(recv.join, y)
                    if r[0] != "exc" or r[1] != "CountMinSketchError":
                        bad("C13", "pair.join_incompatible_raises", {"which": name, "obs": repr(r)[:200]})
                    if call(bytes, recv) != before:
                        bad("C13", "pair.refused_join_changes_nothing", {"which": name})
                if call(bytes, o) != ob:
                    bad("C13", "pair.operands_unchanged", {"which": name})
            for fo in (3, "text", None, BloomFilter(3, 0.1), [a]):
                recv = self.clone(State(a, None)).impl
                r = call(recv.join, fo)
                if r[0] != "exc" or r[1] != "TypeError":
                    bad("C13", "pair.foreign_raises_typeerror", {"op": "join", "foreign": type(fo).__name__, "obs": repr(r)[:200]})
        if [call(bytes, a), call(bytes, b)] != snap:
            bad("C13", "pair.operands_unchanged", {})
            bad("C12", "pair.operands_unchanged", {})

    def check_initial(self, cfg, st, props):
        return self.check_state(cfg, st, ("init",), ("ok", None), st, set(props))


SYSTEM = PairSystem()
