"""S-QF: QuotientFilter against a Python set of 32-bit hashes (C04, C14, C19)."""
from __future__ import annotations

import io

from mc.engine import PRUNE, State, System, Violation, call, canon, twin_divergence

from probables import QuotientFilter
from probables.hashes import fnv_1a_32


def H(q, quot, rem):
    """32-bit hash with the given quotient (top q bits) and remainder"""
    return (quot << (32 - q)) | rem


def _alphabets(tier):
    """name -> list of 32-bit hashes for an 8-slot filter (q=3, r=29)"""
    hi = 1 << 28  # remainder bit that becomes a quotient bit after a resize to q=4
    al = {}
    # every quotient once or twice, remainder 0 is also the filler of empty slots
    al["A0"] = [H(3, a, r) for a in (0, 1, 2, 5, 6, 7) for r in (0, 2)]
    # wrap-around: clusters that start near the end of the table
    al["Awrap"] = [H(3, a, r) for a in (5, 6, 7, 0) for r in (1, 2, 3)][:11]
    # one deep cluster crossing the end of the table
    al["Adeep"] = [H(3, 6, r) for r in (1, 2, 3, 4, 5)] + [H(3, 7, r) for r in (1, 2, 3, 4, 5)]
    # a single run that can fill the whole table (9 remainders of one quotient)
    al["Arun"] = [H(3, 6, r) for r in range(1, 10)]
    # runs of up to 3 in adjacent quotients in the middle
    al["Amid"] = [H(3, a, r) for a in (2, 3, 4) for r in (0, 1, 5)] + [H(3, 7, 0), H(3, 0, 0)]
    # remainders differing in the bit that a resize moves into the quotient
    al["Asplit"] = [H(3, a, r) for a in (0, 3, 7) for r in (1, hi | 1, 2)] + [H(3, 4, hi)]
    # a 512-slot table: slot indices above 256, two runs sharing a cluster there, the last slots (wrap-around)
    al["Abig"] = [H(9, 300, 1), H(9, 300, 2), H(9, 300, 3), H(9, 301, 1), H(9, 511, 1), H(9, 511, 2), H(9, 0, 1), H(9, 257, 7)]
    # 18 hashes spread over a 16/32-slot table (used pre-filled, see configs)
    al["Afill"] = [H(4, a, r) for a in range(16) for r in (1,)]
    if tier == "thorough":
        al["A1"] = [H(3, a, r) for a in range(8) for r in (1, 2)]
        al["A3"] = [H(3, a, r) for a in (0, 3, 6, 7) for r in (0, 1, 2, 3)]
        al["A4"] = [H(3, a, r) for a in (6, 7) for r in range(1, 8)]
        al["A6"] = [H(3, a, r) for a in (7, 0, 1) for r in (0, 1, 2, 3)] + [H(3, 4, 9)]
    return al


def _key_hash_table(alphabet):
    table = {f"k{i}": h for i, h in enumerate(alphabet)}
    btable = {f"k{i}".encode(): h for i, h in enumerate(alphabet)}

    def table_hash(key, seed=0):
        if key in table:
            return table[key]
        if key in btable:
            return btable[key]
        return fnv_1a_32(key, seed)

    return table_hash


def other_hash(key, seed=0):
    return fnv_1a_32(key, seed + 1)


class QFSystem(System):
    name = "qf"
    serves = ("C04", "C14", "C19")
    rule = (
        "QuotientFilter(quotient=3) driven with add_alt/remove_alt (one configuration through add/remove/check(key) "
        "with a table hash) for every hash of a small alphabet chosen to force runs, clusters, shifted runs and "
        "wrap-around, plus resize(q)/merge(other) where configured; BFS to closure (auto_expand off: all subsets of "
        "the alphabet that fit; on: subsets x reachable quotients); oracle = Python set; non-trivial = state reached "
        "through a transition that shifted at least one stored remainder or changed the quotient."
    )

    # ---- configurations
    def configs(self, prop, tier, seed):
        cfgs = []
        als = _alphabets(tier)
        for name, al in als.items():
            if name in ("Afill", "Abig"):
                continue  # used with their own quotient (below)
            cfgs.append({"alpha": name, "auto": False, "ops": [], "via_key": False, "depth": None, "cost": 30 * 2 ** len(al)})
        # through the key interface (a supplied hash function must survive resizes)
        cfgs.append({"alpha": "Awrap", "auto": False, "ops": [], "via_key": True, "depth": None, "cost": 30 * 2**11})
        cfgs.append({"alpha": "Arun", "auto": True, "ops": ["resize"], "via_key": True, "depth": None, "cost": 60 * 2**9})
        # automatic + manual resize, merge
        cfgs.append({"alpha": "Asplit", "auto": True, "ops": ["resize", "merge"], "via_key": False, "depth": None,
                     "cost": 90 * 2**10})
        cfgs.append({"alpha": "Amid", "auto": True, "ops": ["resize"], "via_key": False, "depth": None, "cost": 90 * 2**11})
        # the auto_expand and max_load_factor setters flipped in mid-history
        cfgs.append({"alpha": "Arun", "auto": True, "ops": ["resize", "setters"], "via_key": False, "depth": None, "cost": 200 * 2**9})
        cfgs.append({"alpha": "Awrap", "auto": False, "ops": ["resize", "merge"], "via_key": False, "depth": None,
                     "cost": 90 * 2**11})
        # nearly full larger tables (load >= 0.85 at quotient 4 and 5): the filter starts with 13 stored hashes, events
        # move 5 hashes in and out and resize by hand while automatic expansion is on
        cfgs.append({"alpha": "Afill", "auto": True, "ops": ["resize"], "via_key": False, "depth": None, "prefill": 13, "q0": 4,
                     "cost": 90 * 2**9})
        cfgs.append({"alpha": "Abig", "auto": False, "ops": [], "via_key": False, "depth": None, "q0": 9, "cost": 60 * 2**8})
        if prop in ("C14", "C19") and tier == "quick":
            # these are state oracles: a subset of the driver suffices on every change
            cfgs = [c for c in cfgs if c["alpha"] in ("A0", "Awrap", "Asplit")]
        if tier == "thorough":
            cfgs.append({"alpha": "A1", "auto": True, "ops": ["resize", "merge"], "via_key": False, "depth": None,
                         "cost": 90 * 2**16, "state_cap": 400000})
        if seed:
            k = seed % len(cfgs)
            cfgs = cfgs[k:] + cfgs[:k]
        return cfgs

    def max_depth(self, cfg):
        return cfg.get("depth")

    def _alpha(self, cfg):
        return _alphabets("thorough")[cfg["alpha"]]

    def _others(self, cfg):
        al = self._alpha(cfg)
        o1 = QuotientFilter(quotient=3, auto_expand=False)
        for h in al[:2]:
            o1.add_alt(h)
        o2 = QuotientFilter(quotient=4, auto_expand=False)
        for h in al[1:6:2]:
            o2.add_alt(h)
        o3 = QuotientFilter(quotient=3, auto_expand=False, hash_function=other_hash)
        o3.add_alt(al[0])
        return [o1, o2, o3]

    def initial(self, cfg):
        hf = _key_hash_table(self._alpha(cfg)) if cfg["via_key"] else None
        f = QuotientFilter(quotient=cfg.get("q0", 3), auto_expand=cfg["auto"], hash_function=hf)
        pre = []
        for h in self._alpha(cfg)[: cfg.get("prefill", 0)]:
            f.add_alt(h)
            pre.append(h)
        return State(f, {"set": sorted(pre), "q": f.quotient})

    def events(self, cfg, st):
        al = self._alpha(cfg)
        evs = []
        lo = max(0, cfg.get("prefill", 0) - 1)  # a pre-filled configuration only moves the last few hashes
        for i in range(lo, len(al)):
            evs.append(("add", i))
        for i in range(lo, len(al)):
            evs.append(("remove", i))
        if "resize" in cfg["ops"]:
            for q in (None, 3, 4, 5, 2):
                if q is None and st.impl.quotient >= 5:
                    continue  # keep the quotient (and hence the state space) bounded
                evs.append(("resize", q))
        if "merge" in cfg["ops"]:
            for j in range(3):
                evs.append(("merge", j))
        if "setters" in cfg["ops"]:
            evs.append(("set_auto", not st.impl.auto_expand))
            evs.append(("set_mlf", 0.5 if st.impl.max_load_factor > 0.6 else 0.85))
        return evs

    def apply(self, cfg, st, ev, choices=None):
        f, m = st.impl, st.model
        al = self._alpha(cfg)
        mset = set(m["set"])
        kind = ev[0]
        if kind in ("add", "remove"):
            h = al[ev[1]]
            if cfg["via_key"]:
                key = f"k{ev[1]}" if ev[1] % 2 == 0 else f"k{ev[1]}".encode()
                obs = call(f.add if kind == "add" else f.remove, key)
            else:
                obs = call(f.add_alt if kind == "add" else f.remove_alt, h)
            if obs[0] == "ok":
                if kind == "add":
                    mset.add(h)
                else:
                    mset.discard(h)
        elif kind == "set_auto":
            obs = call(setattr, f, "auto_expand", ev[1])
        elif kind == "set_mlf":
            obs = call(setattr, f, "max_load_factor", ev[1])
        elif kind == "resize":
            obs = call(f.resize, ev[1])
        else:
            other = self._others(cfg)[ev[1]]
            before = canon(other)
            obs = call(f.merge, other)
            if obs[0] == "ok":
                mset |= set(call(other.get_hashes)[1])
            if canon(other) != before:
                obs = obs + ("operand_changed",)
        m["set"] = sorted(mset)
        m["q"] = getattr(f, "quotient", None)
        return obs

    # ---- oracles
    def _allowed_raise(self, cfg, pre, ev, obs):
        if obs[0] != "exc" or obs[1] != "QuotientFilterError":
            return False
        f = pre.impl
        n = len(pre.model["set"])
        kind = ev[0]
        if kind == "add":
            h = self._alpha(cfg)[ev[1]]
            return n >= f.size and h not in pre.model["set"] and not f.auto_expand
        if kind == "resize":
            q = ev[1] if ev[1] is not None else f.quotient + 1
            return q < 3 or q > 31 or n >= (1 << q)
        if kind == "merge":
            other = self._others(cfg)[ev[1]]
            if ev[1] == 2:
                return True  # different hash function
            union = set(pre.model["set"]) | set(other.get_hashes())
            return len(union) > f.size - (0 if cfg["auto"] else 0) and not cfg["auto"]
        return False

    def nontrivial(self, cfg, pre, ev, obs, post):
        a, b = pre.impl, post.impl
        if a.quotient != b.quotient:
            return True
        fa, fb = a._filter, b._filter
        changed = sum(1 for x, y in zip(fa, fb) if x != y)
        return changed >= 2

    def _observe(self, f):
        buf = io.StringIO()
        p = call(f.print, buf)
        return (
            call(f.get_hashes),
            f.elements_added,
            f.quotient,
            f.remainder,
            f.size,
            f.num_elements,
            f.load_factor,
            f.auto_expand,
            f.max_load_factor,
            f.bits_per_elm,
            p[0],
            buf.getvalue(),
        )

    def _guards(self, pre):
        guards = []
        n_pre = len(pre.model["set"])
        if n_pre >= pre.impl.size:
            guards.append("qf_table_full")
        if n_pre >= pre.impl.size - 1:
            guards.append("qf_table_nearly_full")
        return guards

    def check_step(self, cfg, pre, ev, obs, post, props):
        out = []
        guards = self._guards(pre)
        n_pre = len(pre.model["set"])

        def bad(prop, oracle, detail):
            if prop in props:
                out.append(Violation(prop, oracle, detail, guards))

        if "operand_changed" in obs:
            bad("C19", "qf.merge_operand_unchanged", {"ev": ev})
            bad("C04", "qf.merge_operand_unchanged", {"ev": ev})
        if obs[0] == "timeout":
            bad("C04", "qf.call_terminates", {"ev": ev, "obs": obs})
            return out
        if obs[0] != "ok":
            if not self._allowed_raise(cfg, pre, ev, obs):
                bad("C04", "qf.unexpected_exception", {"ev": ev, "obs": obs, "model_size": n_pre, "slots": pre.impl.size})
                return out
            # an allowed refusal is a no-op on the set: the state oracles are evaluated against the unchanged
            # model.  Only a merge that stopped half-way (receiver ran out of space) leaves an unknown set.
            if ev[0] == "merge" and canon(pre.impl) != canon(post.impl):
                return out or PRUNE
        f = post.impl
        if ev[0] == "resize" and obs[0] == "ok":
            want = ev[1] if ev[1] is not None else pre.impl.quotient + 1
            # with auto_expand on, re-inserting into a table that is at or above the maximum load expands it further
            if f.quotient != want and not (pre.impl.auto_expand and f.quotient > want
                                           and len(pre.model["set"]) >= pre.impl.max_load_factor * (1 << want) - 1):
                bad("C04", "qf.resize_sets_quotient", {"want": want, "got": f.quotient})
        return out

    def check_state(self, cfg, pre, ev, obs, post, props):
        out = []
        f, m = post.impl, post.model
        al = self._alpha(cfg)
        guards = self._guards(pre)

        def bad(prop, oracle, detail):
            if prop in props:
                out.append(Violation(prop, oracle, detail, guards))

        mset = set(m["set"])
        # exact set semantics
        if "C04" in props:
            for i, h in enumerate(al):
                if cfg["via_key"]:
                    key = f"k{i}" if i % 2 == 0 else f"k{i}".encode()
                    r = call(f.check, key)
                    r2 = call(f.__contains__, key)
                else:
                    r = call(f.check_alt, h)
                    r2 = r
                exp = ("ok", h in mset)
                if r != exp or r2 != exp:
                    bad("C04", "qf.membership_exact", {"hash": h, "expected": h in mset, "obs": r, "after": ev})
                    break
            # probes outside the alphabet: same quotient as a stored hash, other remainder
            for h in list(mset)[:3]:
                p = h ^ 0x40
                if p not in mset and p not in al:
                    r = call(f.check_alt, p)
                    if r != ("ok", False):
                        bad("C04", "qf.membership_exact", {"hash": p, "expected": False, "obs": r, "after": ev})
            g = call(f.get_hashes)
            if g[0] != "ok":
                bad("C04", "qf.get_hashes_returns", {"obs": g, "after": ev, "model_size": len(mset), "slots": f.size})
            elif sorted(g[1]) != sorted(mset):
                bad("C04", "qf.hashes_exact", {"expected": sorted(mset), "obs": sorted(g[1]), "after": ev})
            if f.size != 2**f.quotient or f.num_elements != f.size or f.remainder != 32 - f.quotient:
                bad("C04", "qf.size_is_power", {"size": f.size, "q": f.quotient})
            if f.elements_added != len(mset):
                bad("C04", "qf.elements_added", {"expected": len(mset), "obs": f.elements_added, "after": ev})
            if "merge" in cfg["ops"] or cfg["via_key"]:
                # merged into an empty receiver of the same size the set arrives complete, and the two filters
                # stay independent objects afterwards
                g = self.clone(post).impl
                recv = QuotientFilter(quotient=g.quotient, auto_expand=False, hash_function=g._hash_func)
                mr = call(recv.merge, g)
                if mr[0] == "ok":
                    got = call(recv.get_hashes)
                    if got[0] != "ok" or sorted(got[1]) != sorted(mset):
                        bad("C04", "qf.merge_into_empty_is_copy", {"expected": sorted(mset), "obs": got, "after": ev})
                    else:
                        if mset:
                            call(g.remove_alt, sorted(mset)[0])
                        for h in al[:2]:
                            call(g.add_alt, h ^ 0x80)
                        again = call(recv.get_hashes)
                        if again[0] != "ok" or sorted(again[1]) != sorted(mset):
                            bad("C04", "qf.merged_filters_are_independent", {"expected": sorted(mset), "obs": again, "after": ev})
                elif len(mset) < g.size:
                    bad("C04", "qf.merge_into_empty_is_copy", {"obs": mr, "after": ev})
        if "C14" in props:
            if f.elements_added != len(mset):
                bad("C14", "qf.elements_added", {"expected": len(mset), "obs": f.elements_added, "after": ev})
            elif abs(f.load_factor - len(mset) / f.size) > 1e-12:
                bad("C14", "qf.load_factor", {"expected": len(mset) / f.size, "obs": f.load_factor})
        if "C19" in props:
            def ro(x):
                for i, h in enumerate(al[:4]):
                    call(x.check_alt, h)
                    call(x.check, f"k{i}")
                    call(x.__contains__, b"zz")
                call(x.check_alt, 0xFFFFFFFF)
                call(x.check_alt, 0)
                call(lambda: list(x.hashes()))
                call(x.get_hashes)
                call(x.validate_metadata)
                call(x.print, io.StringIO())
                o = self._others(cfg)[0]
                call(o.merge, x)  # x is the non-receiver side

            pristine = self.clone(post)  # before any query of this state
            before = self._observe(f)
            ro(f)
            after = self._observe(f)
            if before != after:
                bad("C19", "qf.queries_do_not_mutate", {"before": repr(before)[:300], "after": repr(after)[:300]})
            if self.cur_depth <= cfg.get("twin_depth", 2):
                div = twin_divergence(self, cfg, pristine, lambda q: ro(q.impl), lambda x: self._observe(x.impl))
                if div is not None:
                    bad("C19", "qf.queried_twin_diverges_one_step_later", div)
        return out

    def check_initial(self, cfg, st, props):
        return self.check(cfg, st, ("init",), ("ok", None), st, props)


SYSTEM = QFSystem()
