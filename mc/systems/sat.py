"""S-SAT: counters saturate at their integer limits (C16) - CountingBloomFilter and CountMinSketch
driven with an amount alphabet around the limits, against a per-cell saturating reference."""
from __future__ import annotations

from mc import bloomlib, keys as K
from mc.engine import State, System, Violation, call, canon

from probables import CountingBloomFilter, CountMinSketch

from mc.systems.cms import cms_table

U32 = 2**32 - 1
U64 = 2**64 - 1
I32_MAX = 2**31 - 1
I32_MIN = -(2**31)
I64_MAX = 2**63 - 1
I64_MIN = -(2**63)


def amounts(limit):
    return [1, limit - 1, limit, limit + 1, 2**32, 2**64 + 5]


class SatSystem(System):
    name = "sat"
    serves = ("C16",)
    rule = (
        'CountingBloomFilter (3 geometries, table hash: key c with all positions on one cell, b sharing cells with a) and '
        'CountMinSketch (width x depth in {(1,1),(2,2),(3,2)}, colliding table hash, one more in mean query mode) driven with '
        "add/remove amounts {1, LIMIT-1, LIMIT, LIMIT+1, 2^32, 2^64+5} (counting Bloom: removals never exceed the key's "
        'outstanding count; count-min: unrestricted, so cells also reach -2^31); all sequences to depth 3 (4 thorough); at every '
        'state union/intersection/join with four or five near-limit operands and with itself, and export+reload; oracle = '
        'per-cell saturating integer vector; non-trivial = state with at least one cell or total at a limit.'
    )

    def configs(self, prop, tier, seed):
        quick = tier == "quick"
        depth = 3 if quick else 4
        cfgs = []
        for n, p in ((1, 0.5), (3, 0.1), (2, 0.3)):
            f = CountingBloomFilter(n, p)
            cfgs.append(dict(kind="cbf", n=n, p=p, m=f.number_bits, k=f.number_hashes, depth=depth, cost=30000))
        for w, d in ((1, 1), (2, 2), (3, 2)):
            cfgs.append(dict(kind="cms", width=w, depth_=d, depth=depth, cost=30000))
        cfgs.append(dict(kind="cms", width=2, depth_=2, depth=depth, qt="mean", cost=30000))
        cfgs.append(dict(kind="cms", width=2, depth_=2, depth=depth, sub="st", cost=30000))
        if seed:
            r = seed % len(cfgs)
            cfgs = cfgs[r:] + cfgs[:r]
        return cfgs

    def _alpha(self, cfg):
        if cfg["kind"] == "cbf":
            items = K.table_for_bits(cfg["m"], cfg["k"])
            keys = [items[2][0], items[1][0], items[0][0]]  # c (coinciding), b (shares with a), a
            return keys, K.table_strategy(items)
        items = cms_table(cfg["width"], cfg["depth_"])
        keys = [k for k, _ in items]
        if cfg.get("sub") == "st":
            keys = [k for k in keys if isinstance(k, str)]
        return keys[:3], K.table_strategy(items)

    def _new(self, cfg):
        keys, hf = self._alpha(cfg)
        if cfg["kind"] == "cbf":
            return CountingBloomFilter(cfg["n"], cfg["p"], hash_function=hf)
        if cfg.get("sub") == "st":
            from probables import StreamThreshold

            return StreamThreshold(threshold=5, width=cfg["width"], depth=cfg["depth_"], hash_function=hf)
        s = CountMinSketch(width=cfg["width"], depth=cfg["depth_"], hash_function=hf)
        if cfg.get("qt"):
            s.query_type = cfg["qt"]
        return s

    def _positions(self, cfg, key):
        keys, hf = self._alpha(cfg)
        if cfg["kind"] == "cbf":
            return [h % cfg["m"] for h in hf(key, cfg["k"])]
        w = cfg["width"]
        return [(h % w) + i * w for i, h in enumerate(hf(key, cfg["depth_"]))]

    def _ncells(self, cfg):
        return cfg["m"] if cfg["kind"] == "cbf" else cfg["width"] * cfg["depth_"]

    def initial(self, cfg):
        keys, _ = self._alpha(cfg)
        return State(self._new(cfg), {"cells": [0] * self._ncells(cfg), "total": 0, "true": [0] * len(keys)})

    def events(self, cfg, st):
        keys, _ = self._alpha(cfg)
        lim = U32 if cfg["kind"] == "cbf" else I32_MAX
        evs = []
        for i in range(len(keys)):
            for a in amounts(lim):
                evs.append(("add", i, a))
        for i in range(len(keys)):
            for a in amounts(lim):
                if cfg["kind"] == "cms" or a <= st.model["true"][i]:
                    evs.append(("remove", i, a))
        return evs

    # ---- the saturating reference
    def _ref_add(self, cfg, m, key, n):
        pos = self._positions(cfg, key)
        c = m["cells"]
        if cfg["kind"] == "cbf":
            pre = [c[p] for p in pos]
            for p in pos:
                c[p] = min(U32, c[p] + n)
            m["total"] = min(U64, m["total"] + n)
            return {min(c[p] for p in pos), min(min(U32, v + n) for v in pre)}
        for p in pos:
            c[p] = min(I32_MAX, c[p] + n)
        m["total"] = min(I64_MAX, m["total"] + n)
        if cfg.get("qt") == "mean":
            return {sum(c[p] for p in pos) // len(pos)}
        return {min(c[p] for p in pos)}

    def _ref_remove(self, cfg, m, key, n):
        pos = self._positions(cfg, key)
        c = m["cells"]
        if cfg["kind"] == "cbf":
            lo = min(c[p] for p in pos)
            if lo == U32:
                return {U32}
            if lo == 0:
                return {0}
            take = min(n, lo)
            for p in pos:
                if c[p] < U32:
                    c[p] -= take
            m["total"] -= take
            return {lo - take, min(c[p] for p in pos)}
        for p in pos:
            c[p] = max(I32_MIN, c[p] - n)
        m["total"] = max(I64_MIN, m["total"] - n)
        if cfg.get("qt") == "mean":
            return {sum(c[p] for p in pos) // len(pos)}
        return {min(c[p] for p in pos)}

    def apply(self, cfg, st, ev, choices=None):
        keys, _ = self._alpha(cfg)
        f, m = st.impl, st.model
        kind, i, n = ev
        obs = call(f.add if kind == "add" else f.remove, keys[i], n)
        if kind == "add":
            acc = self._ref_add(cfg, m, keys[i], n)
            m["true"][i] += n
        else:
            acc = self._ref_remove(cfg, m, keys[i], n)
            m["true"][i] -= n
        return obs + (sorted(acc),) if obs[0] == "ok" else obs

    def _impl_cells(self, cfg, f):
        if cfg["kind"] == "cbf":
            return bloomlib.cells_of(f)
        import struct

        raw = bytes(f)[:-16]
        return list(struct.unpack(f"={len(raw) // 4}i", raw))

    def nontrivial(self, cfg, pre, ev, obs, post):
        lim = (U32,) if cfg["kind"] == "cbf" else (I32_MAX, I32_MIN)
        return any(c in lim for c in post.model["cells"]) or post.model["total"] in (U64, I64_MAX, I64_MIN)

    def check_step(self, cfg, pre, ev, obs, post, props):
        out = []
        guards = []
        keys, _ = self._alpha(cfg)
        pos = self._positions(cfg, keys[ev[1]])
        if cfg["kind"] == "cbf" and len(set(pos)) < len(pos):
            guards.append("cbf_coinciding_positions")

        def bad(oracle, detail):
            out.append(Violation("C16", oracle, detail, guards))

        if obs[0] != "ok":
            bad("sat.call_returns_normally", {"ev": ev, "obs": obs, "cells_before": pre.model["cells"]})
            return out
        if obs[1] not in obs[2]:
            bad("sat.returns_pinned_value", {"ev": ev, "returned": obs[1], "accepted": obs[2]})
        if cfg["kind"] == "cbf":
            a, b = pre.model["cells"], self._impl_cells(cfg, post.impl)
            for x, y in zip(a, b):
                if x == U32 and y != U32:
                    bad("sat.cell_at_limit_never_decremented", {"ev": ev, "before": a, "after": b})
                    break
        return out

    def check_state(self, cfg, pre, ev, obs, post, props):
        out = []
        guards = []
        f, m = post.impl, post.model
        lim_hit = any(c in (U32, I32_MAX, I32_MIN) for c in m["cells"])
        if lim_hit:
            guards.append("cell_at_limit")

        def bad(oracle, detail, g=()):
            out.append(Violation("C16", oracle, detail, tuple(guards) + tuple(g)))

        cells = call(lambda: self._impl_cells(cfg, f))
        if cells[0] != "ok":
            bad("sat.state_exportable", {"obs": cells})
            return out
        if cells[1] != m["cells"]:
            bad("sat.cells_equal_saturating_reference", {"after": ev, "expected": m["cells"], "obs": cells[1]})
        if f.elements_added != m["total"]:
            bad("sat.total_equals_saturating_reference", {"after": ev, "expected": m["total"], "obs": f.elements_added})
        # export + reload still works and round-trips
        b = call(bytes, f)
        keys, hf = self._alpha(cfg)
        if b[0] != "ok":
            bad("sat.state_exportable", {"obs": b})
        else:
            cls = type(f)
            kw = {"threshold": 5} if cfg.get("sub") == "st" else {}
            g = call(lambda: cls.frombytes(b[1], hash_function=hf, **kw))
            if g[0] != "ok" or call(bytes, g[1]) != b or g[1].elements_added != f.elements_added:
                bad("sat.state_reloadable", {"obs": repr(g)[:200]})
            if cfg["kind"] == "cbf":
                hx = call(f.export_hex)
                g2 = call(lambda: cls(hex_string=hx[1], hash_function=hf)) if hx[0] == "ok" else hx
                if g2[0] != "ok" or call(bytes, g2[1]) != b:
                    bad("sat.state_reloadable", {"channel": "hex", "obs": repr(g2)[:200]})
        # merges with near-limit operands
        lim = U32 if cfg["kind"] == "cbf" else I32_MAX
        others = []
        for i, amt in ((0, lim - 1), (1, 1), (2, lim), (0, 2**32)):
            o = self._new(cfg)
            om = {"cells": [0] * self._ncells(cfg), "total": 0}
            r = call(o.add, keys[i % len(keys)], amt)
            if r[0] != "ok":
                continue  # reported by the step oracle of the corresponding add event
            self._ref_add(cfg, om, keys[i % len(keys)], amt)
            others.append((o, om))
        if cfg["kind"] == "cms":
            o = self._new(cfg)
            om = {"cells": [0] * self._ncells(cfg), "total": 0}
            if call(o.remove, keys[0], lim)[0] == "ok":
                self._ref_remove(cfg, om, keys[0], lim)
                others.append((o, om))
        others.append((self.clone(post).impl, {"cells": list(m["cells"]), "total": m["total"]}))
        for o, om in others:
            if cfg["kind"] == "cbf":
                g2 = ("merge_of_near_limit",)
                u = call(f.union, o)
                want = [min(U32, x + y) for x, y in zip(m["cells"], om["cells"])]
                if u[0] != "ok" or u[1] is None:
                    bad("sat.union_returns_normally", {"obs": repr(u)[:200], "A": m["cells"], "B": om["cells"]}, g2)
                elif bloomlib.cells_of(u[1]) != want:
                    bad("sat.union_clamps", {"expected": want, "obs": bloomlib.cells_of(u[1])}, g2)
                it = call(f.intersection, o)
                want_i = [min(U32, x + y) if x and y else 0 for x, y in zip(m["cells"], om["cells"])]
                if it[0] != "ok" or it[1] is None:
                    bad("sat.intersection_returns_normally", {"obs": repr(it)[:200], "A": m["cells"], "B": om["cells"]}, g2)
                elif [bool(z) for z in bloomlib.cells_of(it[1])] != [bool(z) for z in want_i] or any(
                    z > U32 for z in bloomlib.cells_of(it[1])
                ):
                    bad("sat.intersection_clamps", {"expected": want_i, "obs": bloomlib.cells_of(it[1])}, g2)
            elif cfg.get("sub") == "st":
                pass  # join is not supported by StreamThreshold
            else:
                recv = self.clone(post).impl
                r = call(recv.join, o)
                want = []
                for x, y in zip(m["cells"], om["cells"]):
                    want.append(x if x in (I32_MAX, I32_MIN) else max(I32_MIN, min(I32_MAX, x + y)))
                wt = max(I64_MIN, min(I64_MAX, m["total"] + om["total"]))
                if r[0] != "ok":
                    bad("sat.join_returns_normally", {"obs": r, "A": m["cells"], "B": om["cells"]})
                else:
                    got = self._impl_cells(cfg, recv)
                    if got != want or recv.elements_added != wt:
                        bad("sat.join_clamps", {"expected": want, "obs": got, "total": recv.elements_added, "expected_total": wt})
                    if call(lambda: CountMinSketch.frombytes(bytes(recv), hash_function=hf))[0] != "ok":  # noqa: E501
                        bad("sat.state_reloadable", {"after": "join"})
        return out

    def check_initial(self, cfg, st, props):
        return self.check_state(cfg, st, ("init", 0, 0), ("ok", None, []), st, set(props))


SYSTEM = SatSystem()
