#!/venv/bin/python
"""tools/eval_mutant.py <mutant dir> <property> [--all] [--keep]

Confirms a candidate property-breaking change and runs the property's check against it, in a
scratch worktree of /repo outside /repo and /verif (removed afterwards):
  1. patch applies to HEAD, 2. the repository's own test-suite still passes with it,
  3. the demonstration fails with the patch and passes without,
  4. ./check <property> (quick) reports a VIOLATION on the patched tree (VERIF_REPO=<worktree>),
  5. the replay artefact fails on the patched tree and holds on the clean tree.
Prints one JSON object.
"""
import json
import os
import re
import subprocess
import sys
import time

VERIF = os.path.dirname(os.path.dirname(os.path.abspath(__file__)))
PY = "/venv/bin/python"


def sh(cmd, cwd=None, env=None, timeout=1800):
    e = dict(os.environ)
    if env:
        e.update(env)
    try:
        r = subprocess.run(cmd, cwd=cwd, env=e, capture_output=True, text=True, timeout=timeout)
        return r.returncode, r.stdout + r.stderr
    except subprocess.TimeoutExpired as exc:
        return 124, (exc.stdout or "") + "TIMEOUT"


def main():
    mdir = os.path.abspath(sys.argv[1])
    prop = sys.argv[2]
    props = [prop] + [a for a in sys.argv[3:] if re.fullmatch(r"C\d\d", a)]
    name = os.path.basename(mdir.rstrip("/"))
    wt = f"/tmp/ev/{name}-{os.getpid()}"
    os.makedirs("/tmp/ev", exist_ok=True)
    out = {"mutant": name, "property": prop}
    rc, o = sh(["git", "-C", "/repo", "worktree", "add", "--detach", "-q", wt, "HEAD"])
    if rc:
        out["error"] = "worktree: " + o[-200:]
        print(json.dumps(out))
        return 2
    try:
        rc, o = sh(["git", "-C", wt, "apply", os.path.join(mdir, "patch.diff")])
        out["applies"] = rc == 0
        if rc:
            out["error"] = o[-300:]
            return 2
        rc, o = sh([PY, "-m", "pytest", "-q", "-p", "no:cacheprovider", "-x"], cwd=wt, timeout=900)
        out["tests_pass_with_patch"] = rc == 0
        out["tests_tail"] = o.strip().splitlines()[-1] if o.strip() else ""
        demo = os.path.join(mdir, "demo.py")
        if os.path.exists(demo):
            rc1, o1 = sh([PY, demo], cwd=wt, timeout=300)
            rc0, o0 = sh([PY, demo], cwd="/repo", timeout=300)
            out["demo_fails_with_patch"] = rc1 != 0
            out["demo_passes_clean"] = rc0 == 0
            out["demo_out"] = o1.strip()[-200:]
        for p in props:
            t0 = time.time()
            rc, o = sh([os.path.join(VERIF, "check"), p, "--no-evidence"], cwd=VERIF, env={"VERIF_REPO": wt}, timeout=1500)
            viol = re.findall(r"VIOLATION property=(\S+) replay=(\S+)", o)
            oracles = sorted(set(re.findall(r"oracle=(\S+)", o)))
            key = "check" if p == prop else f"check_{p}"
            out[key] = {"exit": rc, "violations": len(viol), "oracles": oracles[:8], "wall_s": round(time.time() - t0, 1),
                        "tail": o.strip().splitlines()[-1][:200] if o.strip() else ""}
            if p == prop and viol:
                rp = viol[0][1]
                r1, _ = sh([os.path.join(VERIF, "check"), p, "--replay", rp], cwd=VERIF, env={"VERIF_REPO": wt}, timeout=300)
                r0, _ = sh([os.path.join(VERIF, "check"), p, "--replay", rp], cwd=VERIF, timeout=300)
                out["replay_fails_with_patch"] = r1 == 1
                out["replay_holds_clean"] = r0 == 0
        out["detected"] = out.get("check", {}).get("exit") == 1
    finally:
        sh(["git", "-C", "/repo", "worktree", "remove", "--force", wt])
        print(json.dumps(out))
    return 0


if __name__ == "__main__":
    sys.exit(main())
