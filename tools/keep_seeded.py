#!/venv/bin/python
"""tools/keep_seeded.py <results.jsonl> <mutants root>

Copies every CONFIRMED seeded change (patch applies, repository tests pass with it, demo fails with
it and passes without) into /verif/seeded/<id>/ as patch.diff, demo.py, notes.md and meta.json
(which property it breaks, what it needs to manifest, what was run, whether the check caught it)."""
import json
import os
import shutil
import sys

VERIF = os.path.dirname(os.path.dirname(os.path.abspath(__file__)))


def first_para(text, header):
    out = []
    grab = False
    for line in text.splitlines():
        if line.lower().startswith("#") and header in line.lower():
            grab = True
            continue
        if grab and line.startswith("#"):
            break
        if grab:
            out.append(line)
    return " ".join(x.strip() for x in out if x.strip())[:900]


def main():
    res_file, root = sys.argv[1], sys.argv[2]
    latest = {}
    for line in open(res_file):
        line = line.strip()
        if not line.startswith("{"):
            continue
        r = json.loads(line)
        latest[r["mutant"]] = r
    kept = 0
    for name, r in sorted(latest.items()):
        confirmed = r.get("applies") and r.get("tests_pass_with_patch") and r.get("demo_fails_with_patch") and r.get("demo_passes_clean")
        if not confirmed:
            print(f"{name}: NOT confirmed ({ {k: r.get(k) for k in ('applies','tests_pass_with_patch','demo_fails_with_patch','demo_passes_clean')} })")
            continue
        src = os.path.join(root, name)
        dst = os.path.join(VERIF, "seeded", name)
        os.makedirs(dst, exist_ok=True)
        for f in ("patch.diff", "demo.py", "notes.md"):
            if os.path.exists(os.path.join(src, f)):
                shutil.copy(os.path.join(src, f), os.path.join(dst, f))
        notes = open(os.path.join(src, "notes.md")).read() if os.path.exists(os.path.join(src, "notes.md")) else ""
        meta_path = os.path.join(dst, "meta.json")
        meta = json.load(open(meta_path)) if os.path.exists(meta_path) else {}
        meta.update({
            "id": name,
            "breaks_property": r["property"],
            "source": "independent sub-agent given only the property text and a scratch worktree",
            "needs_to_manifest": first_para(notes, "need") or first_para(notes, "manifest") or notes[:600],
            "confirmed": {
                "patch_applies_to_repo_HEAD": True,
                "repo_tests_with_patch": r.get("tests_tail"),
                "demo_with_patch": "FAIL (exit != 0): " + r.get("demo_out", "")[-160:],
                "demo_on_clean_tree": "PASS (exit 0)",
                "how": "tools/eval_mutant.py in a scratch worktree under /tmp/ev (removed afterwards)",
            },
            "check": {
                "command": f"VERIF_REPO=<patched worktree> ./check {r['property']} --tier quick",
                "detected": bool(r.get("detected")),
                "exit": r.get("check", {}).get("exit"),
                "oracles": r.get("check", {}).get("oracles"),
                "wall_s": r.get("check", {}).get("wall_s"),
                "replay_fails_with_patch": r.get("replay_fails_with_patch"),
                "replay_holds_on_clean_tree": r.get("replay_holds_clean"),
            },
        })
        for k, v in r.items():
            if k.startswith("check_C"):
                meta.setdefault("other_checks", {})[k[6:]] = {"detected": v["exit"] == 1, "oracles": v["oracles"]}
        json.dump(meta, open(meta_path, "w"), indent=1)
        kept += 1
        print(f"{name}: kept, detected={meta['check']['detected']} oracles={meta['check']['oracles']}")
    print("kept", kept)


if __name__ == "__main__":
    main()
