#!/venv/bin/python
"""tools/matrix.py - rewrites the detection table of DESIGN.md section 9.6 from seeded/*/meta.json"""
import json
import os

VERIF = os.path.dirname(os.path.dirname(os.path.abspath(__file__)))
HEAD = "| change | breaks | caught at first evaluation | caught now | reporting oracle(s) |"
TAIL = "Detection of the repaired defects F1-F11 is re-checked"


def main():
    rows = []
    for name in sorted(os.listdir(os.path.join(VERIF, "seeded"))):
        p = os.path.join(VERIF, "seeded", name, "meta.json")
        if not os.path.exists(p):
            continue
        m = json.load(open(p))
        other = ", ".join(k for k, v in m.get("other_checks", {}).items() if v.get("detected"))
        now = "yes" if m["check"]["detected"] else (f"by the {other} check" if other else "NO (outside the property as stated)")
        rows.append(f"| {name} | {m['breaks_property']} | {'yes' if m.get('first_version_detected') else 'no'} | {now} | "
                    f"{', '.join((m['check'].get('oracles') or [])[:2])} |")
    s = open(os.path.join(VERIF, "DESIGN.md")).read()
    i, j = s.index(HEAD), s.index(TAIL)
    s = s[:i] + HEAD + "\n|---|---|---|---|---|\n" + "\n".join(rows) + "\n\n" + s[j:]
    open(os.path.join(VERIF, "DESIGN.md"), "w").write(s)
    det = sum(1 for r in rows if "| yes |" in r.split("|", 4)[4])
    print(len(rows), "rows")


if __name__ == "__main__":
    main()
