#!/venv/bin/python
"""tools/run_seeded.py [ids...]   - regression over /verif/seeded

For every seeded change (or the ones named): scratch worktree of /repo HEAD under /tmp/ev, apply
patch.diff, run the repository tests, the demo (with / without the patch) and the quick check of the
property it breaks (VERIF_REPO=<worktree>); update meta.json["check"]; remove the worktree.
Prints one line per change and a summary; exit 1 if a confirmed change is not detected."""
import json
import os
import subprocess
import sys

VERIF = os.path.dirname(os.path.dirname(os.path.abspath(__file__)))


def main():
    args = sys.argv[1:]
    jobs = 1
    if args and args[0].startswith("-j"):
        jobs = int(args[0][2:] or 2)
        args = args[1:]
    ids = args or sorted(os.listdir(os.path.join(VERIF, "seeded")))
    if jobs > 1:
        from concurrent.futures import ThreadPoolExecutor

        with ThreadPoolExecutor(max_workers=jobs) as ex:
            rcs = list(ex.map(lambda n: subprocess.run([sys.argv[0], n], capture_output=True, text=True), ids))
        bad = []
        for n, r in zip(ids, rcs):
            line = [x for x in r.stdout.splitlines() if x.startswith(n)]
            print(line[0] if line else f"{n} EVAL-ERROR", flush=True)
            if r.returncode:
                bad.append(n)
        print(f"{len(ids) - len(bad)}/{len(ids)} detected; missed: {bad}")
        return 1 if bad else 0
    missed = []
    for name in ids:
        d = os.path.join(VERIF, "seeded", name)
        meta_path = os.path.join(d, "meta.json")
        if not os.path.exists(meta_path):
            continue
        meta = json.load(open(meta_path))
        prop = meta["breaks_property"]
        others = sorted(meta.get("other_checks", {}))
        r = subprocess.run([os.path.join(VERIF, "tools", "eval_mutant.py"), d, prop] + others, capture_output=True, text=True)
        try:
            res = json.loads(r.stdout.strip().splitlines()[-1])
        except Exception:  # noqa: BLE001
            print(name, "EVAL-ERROR", r.stdout[-200:], r.stderr[-200:])
            missed.append(name)
            continue
        first = meta.get("check", {})
        if "first_version_detected" not in meta:
            meta["first_version_detected"] = bool(first.get("detected"))
        meta["check"] = {
            "command": f"VERIF_REPO=<patched worktree> ./check {prop} --tier quick",
            "detected": bool(res.get("detected")),
            "exit": res.get("check", {}).get("exit"),
            "oracles": res.get("check", {}).get("oracles"),
            "wall_s": res.get("check", {}).get("wall_s"),
            "replay_fails_with_patch": res.get("replay_fails_with_patch"),
            "replay_holds_on_clean_tree": res.get("replay_holds_clean"),
        }
        meta["confirmed"]["repo_tests_with_patch"] = res.get("tests_tail")
        json.dump(meta, open(meta_path, "w"), indent=1)
        by_other = False
        for o in others:
            v = res.get(f"check_{o}", {})
            meta["other_checks"][o] = {"detected": v.get("exit") == 1, "oracles": v.get("oracles")}
            by_other = by_other or v.get("exit") == 1
        json.dump(meta, open(meta_path, "w"), indent=1)
        ok = (res.get("detected") or by_other) and res.get("tests_pass_with_patch") and res.get("demo_fails_with_patch") and res.get("demo_passes_clean")
        print(name, "OK" if ok else "MISSED/UNCONFIRMED", meta["check"]["oracles"], meta["check"]["wall_s"], flush=True)
        if not ok:
            missed.append(name)
    print(f"{len(ids) - len(missed)}/{len(ids)} detected; missed: {missed}")
    return 1 if missed else 0


if __name__ == "__main__":
    sys.exit(main())
